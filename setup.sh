#!/bin/bash
# MANIFEST.setup_cmd: offline; verifies tool presence and prebuilds *dependency* artifacts only.
set -e
cd "$(dirname "$0")"
export CARGO_NET_OFFLINE=true
cargo kani --version
cbmc --version
z3 --version
cvc5 --version | head -1
python3-vt -c "import z3; print('z3py', z3.get_version_string())"
python3 check.py setup
