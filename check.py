#!/usr/bin/env python3
"""Single entry point of the /verif machinery.

  python3 /verif/check.py <ID> [--tier quick|thorough] [--replay PATH] [--only SUBSTR] [--list]

exit 0  property held on everything explored (KNOWN-FINDING lines may be printed)
exit 1  + line `VIOLATION property=<ID> replay=<path>`: a solver counterexample that reproduces natively
exit 2  inconclusive (timeout, OOM, overlay does not compile against /repo, cover unsatisfied, counterexample not reproduced)
"""
import argparse
import json
import os
import re
import sys
import time

sys.path.insert(0, os.path.dirname(os.path.abspath(__file__)))
from vlib import common, kani  # noqa: E402
from vlib.common import log, EXIT_OK, EXIT_VIOLATION, EXIT_INCONCLUSIVE  # noqa: E402

PROPS_META = json.load(open(os.path.join(common.VERIF, "props_meta.json")))


def load_known():
    p = os.path.join(common.VERIF, "known_findings.json")
    if os.path.isfile(p):
        return json.load(open(p))["findings"]
    return []


def known_match(prop, hname, desc, known):
    for k in known:
        if k.get("status") != "known" or k["property"] != prop:
            continue
        if k.get("engine", "K") != "K":
            continue
        if re.search(k["harness"], hname) and re.search(k.get("check", ".*"), desc):
            return k
    return None


def required_files(selected):
    files = []
    for h in selected:
        if h.rel not in files:
            files.append(h.rel)
    # closure over `// @requires <rel>` lines
    changed = True
    while changed:
        changed = False
        for rel in list(files):
            for m in re.finditer(r"^//\s*@requires\s+(\S+)", open(os.path.join(common.OVERLAY, rel)).read(), re.M):
                if m.group(1) not in files:
                    files.append(m.group(1))
                    changed = True
    return files


def pre_generate(tier):
    """Generators that derive overlay sources from /repo's current tree (DSL extraction). Each writes
    into /verif/overlay/... `*_gen.rs` files that are git-ignored and regenerated on every run."""
    gen_dir = os.path.join(common.VERIF, "gen")
    if not os.path.isdir(gen_dir):
        return
    for name in sorted(os.listdir(gen_dir)):
        if name.endswith(".py") and name.startswith("gen_"):
            import importlib.util
            if gen_dir not in sys.path:
                sys.path.insert(0, gen_dir)
            spec = importlib.util.spec_from_file_location(name[:-3], os.path.join(gen_dir, name))
            mod = importlib.util.module_from_spec(spec)
            spec.loader.exec_module(mod)
            if hasattr(mod, "generate"):
                mod.generate(common.REPO, common.OVERLAY, tier)


def run_engine_k(prop, tier, seed, only=None):
    """Returns dict(status, violations[], known[], inconclusive[], harness_results, ...)"""
    meta = PROPS_META[prop]
    pre_generate(tier)
    allh = kani.discover()
    sel = kani.select(allh, prop, tier)
    if only:
        sel = [h for h in sel if re.search(only, h.name)]
    if not sel:
        return None
    # deterministic order, permuted by seed (verdicts do not depend on it)
    import random
    rnd = random.Random(seed)
    sel.sort(key=lambda h: h.full)
    rnd.shuffle(sel)
    files = required_files(sel)
    caps = meta.get("caps", {})
    cap_s = caps.get(tier, {}).get("timeout_s", 600 if tier == "quick" else 3600)
    if os.environ.get("VERIF_CAP_S"):
        cap_s = int(os.environ["VERIF_CAP_S"])
    mem_gb = caps.get(tier, {}).get("mem_gb", 10 if tier == "quick" else 14)
    jobs = caps.get(tier, {}).get("jobs", 12)
    stubbing = any("kani::stub" in open(os.path.join(common.OVERLAY, f)).read() for f in files)
    out = {"selected": sel, "files": files, "results": {}, "violations": [], "known": [], "inconclusive": [],
           "build_ok": True, "wall": 0.0, "cap_s": cap_s, "mem_gb": mem_gb, "jobs": jobs}
    dropped = []
    attempt = 0
    while True:
        attempt += 1
        sc = common.Scratch(prop + "." + tier)
        sc.__enter__()
        try:
            sc.install_overlay(files, tier=tier)
        except common.OverlayError as e:
            sc.__exit__(None, None, None)
            out["build_ok"] = False
            out["inconclusive"].append(("overlay", str(e)))
            return out
        sc.patch_memchr()
        results, build_ok, raw, wall, seeded = kani.run_kani(sc, sel, cap_s, mem_gb, jobs, stubbing=stubbing)
        out["wall"] += wall
        out["seeded_deps"] = seeded
        if not build_ok:
            os.makedirs(os.path.join(common.VERIF, "logs"), exist_ok=True)
            open(os.path.join(common.VERIF, "logs", "%s.%s.build%d.log" % (prop, tier, attempt)), "w").write(raw[-40000:])
        if build_ok or attempt >= 3:
            break
        # a harness file that no longer compiles against /repo's tree (e.g. a private API changed) must not
        # take the other harnesses down with it: drop the offending overlay files and try again
        # only files named by *errors* (warnings also carry `-->` lines)
        bad = set()
        lines_ = raw.split("\n")
        for li, ln in enumerate(lines_):
            if re.match(r"^error(\[E\d+\])?:", ln):
                for nxt in lines_[li + 1:li + 6]:
                    mm = re.search(r"--> (src/[^:\s]*verif_kani[^:\s]*\.rs)", nxt)
                    if mm:
                        bad.add(mm.group(1))
                        break
        bad = sorted(bad)
        bad = [b for b in bad if b in files]
        if not bad:
            break
        changed = True
        while changed:
            changed = False
            for rel in files:
                if rel in bad:
                    continue
                reqs = re.findall(r"^//\s*@requires\s+(\S+)", open(os.path.join(common.OVERLAY, rel)).read(), re.M)
                if any(r in bad for r in reqs):
                    bad.append(rel)
                    changed = True
        for h in [h for h in sel if h.rel in bad]:
            dropped.append(h)
            out["inconclusive"].append((h.name, "harness file %s does not compile against /repo's current tree" % h.rel))
        sel = [h for h in sel if h.rel not in bad]
        files = [f for f in files if f not in bad]
        out["selected"], out["files"] = sel, files
        sc.__exit__(None, None, None)
        if not sel:
            out["build_ok"] = False
            return out
    try:
        out["results"] = results
        if not build_ok:
            out["build_ok"] = False
            errs = [l for l in raw.split("\n") if l.startswith("error")][:8]
            out["inconclusive"].append(("build", "overlay/harness build failed against /repo's current tree: " + " | ".join(errs)))
            os.makedirs(os.path.join(common.VERIF, "logs"), exist_ok=True)
            open(os.path.join(common.VERIF, "logs", "%s.%s.build.log" % (prop, tier)), "w").write(raw[-20000:])
            return out
        known = load_known()
        for h in sel:
            r = results[h.full]
            verdict, why = kani.classify(h, r, prop)
            r["verdict"], r["why"] = verdict, why
            if verdict == "inconclusive":
                out["inconclusive"].append((h.name, why))
            elif verdict == "violation":
                descs = " ;; ".join(c["description"] for c in r.get("failed_checks", []) if "unwinding" not in c["description"] and kani.applies(c["description"], prop))
                k = known_match(prop, h.name, descs, known)
                if k:
                    out["known"].append((h.name, k))
                    r["verdict"] = "known-finding"
                    continue
                if os.environ.get("VERIF_NO_REPLAY"):
                    out["inconclusive"].append((h.name, "violation (replay skipped): " + why))
                    continue
                if len(out["violations"]) >= 2:
                    # two counterexamples have already been replayed natively and reported; further failing
                    # harnesses of the same run are listed but not replayed (each replay builds the test crate)
                    out.setdefault("also_failing", []).append((h.name, why))
                    r["verdict"] = "violation (not replayed)"
                    continue
                # replay before reporting
                test_src, praw = kani.concrete_playback(sc, h, cap_s, mem_gb, stubbing=stubbing, result=r)
                rp = os.path.join(common.REPLAY, prop, h.name + ".rs")
                os.makedirs(os.path.dirname(rp), exist_ok=True)
                if test_src is None:
                    open(rp, "w").write("// no concrete playback produced\n// harness: %s\n// failed: %s\n" % (h.full, why))
                    out["inconclusive"].append((h.name, "counterexample could not be extracted: " + why))
                    r["verdict"] = "inconclusive"
                    continue
                header = "// VERIF-REPLAY property=%s harness=%s rel=%s tier=%s\n// failed: %s\n" % (prop, h.full, h.rel, tier, why)
                open(rp, "w").write(header + test_src)
                reproduced, rlog = kani.native_replay(files, h, test_src, tier)
                open(rp + ".log", "w").write(rlog)
                if reproduced:
                    out["violations"].append((h.name, rp, why))
                else:
                    out["inconclusive"].append((h.name, "counterexample did not reproduce natively (encoding/stub issue?): " + why))
                    r["verdict"] = "inconclusive"
    finally:
        sc.__exit__(None, None, None)
    return out


def evidence_k(prop, tier, seed, out, wall):
    meta = PROPS_META[prop]
    res = out["results"]
    sel = out["selected"]
    ok = [h for h in sel if res[h.full].get("verdict") == "ok"]
    nontrivial = [h for h in ok if h.expect == "pass" and res[h.full].get("covers_total", 0) >= 1 and res[h.full].get("checks", 0) > 0]
    fns = sorted({f for h in sel for f in res[h.full].get("functions", [])})
    samples = []
    for h in sel:
        r = res[h.full]
        samples.append({"harness": h.full, "verdict": r.get("verdict"), "why": r.get("why", ""), "expect": h.expect,
                        "unwind": h.unwind, "cbmc_checks": r.get("checks"), "failed": r.get("failed"),
                        "covers": "%s/%s" % (r.get("covers_sat"), r.get("covers_total")),
                        "time_s": r.get("time_s"), "solver_s": r.get("solver_s"), "peak_rss_mb": r.get("peak_rss_mb"),
                        "real_functions_entered": r.get("functions", [])[:40], "note": h.note})
    cov = {
        "evaluations": len(sel),
        "distinct_nontrivial": len(nontrivial),
        "rule": "one evaluation = one Kani/CBMC query (harness) over all values of its symbolic inputs within the stated bound; "
                "non-trivial = verdict SUCCESS with every kani::cover! witness satisfied (>=1 cover) and >0 CBMC checks; canaries (expect=fail) are not counted",
        "samples": samples,
        "obligations": sum(res[h.full].get("checks", 0) or 0 for h in sel),
        "discharged": sum((res[h.full].get("checks", 0) or 0) - (res[h.full].get("failed", 0) or 0) for h in ok),
        "queries_discharged": len(ok),
        "solver_time_s": round(sum(res[h.full].get("solver_s") or 0 for h in sel), 2),
        "verification_time_s": round(sum(res[h.full].get("time_s") or 0 for h in sel), 2),
        "functions_encoded": fns,
        "bounds": meta.get("bounds", {}).get(tier, meta.get("bounds", {})),
        "outside_the_claim": meta.get("outside", []),
        "trusted_base": meta.get("trusted_base", []),
        "inconclusive": [{"harness": a, "reason": b} for a, b in out["inconclusive"]],
        "known_findings_reported": [{"harness": a, "id": k["id"]} for a, k in out["known"]],
        "caps": {"timeout_s": out["cap_s"], "mem_gb": out["mem_gb"], "jobs": out["jobs"]},
        "tools": "kani 0.68.0 / CBMC 6.11.0 / cadical",
        "repo": common.repo_state(),
        "overlay_files": out["files"],
        "exhaustive": False,
    }
    return cov


def main():
    ap = argparse.ArgumentParser()
    ap.add_argument("prop")
    ap.add_argument("--tier", default=os.environ.get("VERIF_TIER", "quick"), choices=["quick", "thorough"])
    ap.add_argument("--replay")
    ap.add_argument("--only")
    ap.add_argument("--list", action="store_true")
    ap.add_argument("--no-evidence", action="store_true")
    a = ap.parse_args()
    if a.prop == "setup":
        ok = kani.build_seed()
        log("kani dependency seed: %s" % ("built" if ok else "FAILED"))
        return 0 if ok else 1
    prop = a.prop.upper()
    seed = int(os.environ.get("VERIF_SEED", "0") or 0)
    if prop not in PROPS_META:
        log("unknown or not-applicable property %s" % prop)
        return EXIT_INCONCLUSIVE
    if a.list:
        for h in kani.select(kani.discover(), prop, a.tier):
            print(h.full, h.tier, h.expect, h.unwind)
        return 0
    if a.replay:
        from vlib import replay
        return replay.run(prop, a.replay)
    t0 = time.time()
    meta = PROPS_META[prop]
    violations, known, inconcl = [], [], []
    coverage = {}
    engines = meta.get("engines", ["K"])
    outk = None
    if "K" in engines:
        outk = run_engine_k(prop, a.tier, seed, a.only)
        if outk is not None:
            violations += [("K:" + n, rp, why) for n, rp, why in outk["violations"]]
            known += [("K:" + n, k) for n, k in outk["known"]]
            inconcl += [("K:" + n, w) for n, w in outk["inconclusive"]]
            coverage = evidence_k(prop, a.tier, seed, outk, time.time() - t0)
    if "Z" in engines and not a.only:
        from vlib import engine_z
        outz = engine_z.run(prop, a.tier, seed)
        violations += outz["violations"]
        known += outz["known"]
        inconcl += outz["inconclusive"]
        coverage = engine_z.merge_coverage(coverage, outz)
    wall = time.time() - t0
    for n, k in known:
        log("KNOWN-FINDING: property=%s %s [%s] %s" % (prop, k["id"], n, k["text"]))
    for n, rp, why in violations:
        log("VIOLATION property=%s replay=%s" % (prop, rp))
        log("  harness %s: %s" % (n, why))
    for n, w in inconcl:
        log("INCONCLUSIVE %s: %s" % (n, w))
    if outk is not None:
        for n, w in outk.get("also_failing", []):
            log("ALSO-FAILING (not replayed) %s: %s" % (n, w))
    if outk is not None:
        for h in outk["selected"]:
            r = outk["results"].get(h.full, {})
            log("  %-70s %-14s t=%ss rss=%sMB checks=%s covers=%s/%s" % (h.full[-70:], r.get("verdict"), r.get("time_s"), r.get("peak_rss_mb"),
                                                                         r.get("checks"), r.get("covers_sat"), r.get("covers_total")))
    if not a.no_evidence and not a.only:
        ev = {
            "property_id": prop,
            "tier": a.tier,
            "seed": seed,
            "level": meta["level"],
            "coverage": coverage,
            "assumptions": meta.get("assumptions", []),
            "wall_s": round(wall, 1),
            "violations": len(violations),
        }
        common.write_json(os.path.join(common.EVIDENCE, prop + ".json"), ev)
    if violations:
        return EXIT_VIOLATION
    if inconcl:
        return EXIT_INCONCLUSIVE
    log("OK property=%s tier=%s wall=%.0fs" % (prop, a.tier, wall))
    return EXIT_OK


if __name__ == "__main__":
    sys.exit(main())
