//! Verification model of the part of `hashbrown` 0.17 that lol-html uses (`selectors_vm::stack`).
//!
//! The real crate probes its table with SSE2 group loads and seeds `foldhash` from the environment; neither
//! is modelled by Kani/CBMC. This shim is the *documented contract* of the API as a linear list of
//! `(hash, key, value)` entries: a lookup finds the entry whose stored hash equals the probe hash and whose key
//! the caller's equivalence accepts (exactly what a hash table does for hash-consistent keys; for keys whose
//! `Hash` disagrees with `Eq` the model answers "absent", which is one of the behaviours the real table can
//! show). Storage is a fixed array of `CAP` optional entries instead of a growable table: CBMC loses constant
//! propagation through `realloc`, and the harnesses use at most three distinct keys; inserting a `CAP+1`-th key
//! panics ("capacity of the verification model exceeded"), which a harness would report as a failure, never hide.
//! Iteration order is slot order; lol-html does not depend on it.
//! Only used through `[patch.crates-io]` in the scratch copy that Kani compiles — never in a native build.
#![no_std]

pub const CAP: usize = 4;
use core::borrow::Borrow;
use core::hash::{BuildHasher, Hash, Hasher};

pub trait Equivalent<K: ?Sized> {
    fn equivalent(&self, key: &K) -> bool;
}

impl<Q: ?Sized, K: ?Sized> Equivalent<K> for Q
where
    Q: Eq,
    K: Borrow<Q>,
{
    #[inline]
    fn equivalent(&self, key: &K) -> bool {
        PartialEq::eq(self, key.borrow())
    }
}

/// Deterministic stand-in for foldhash's `RandomState`: a multiply-free mixing of the bytes written.
#[derive(Clone, Copy, Default, Debug)]
pub struct DefaultHashBuilder;

#[derive(Clone, Copy, Default, Debug)]
pub struct ShimHasher(u64);

impl Hasher for ShimHasher {
    #[inline]
    fn finish(&self) -> u64 {
        self.0
    }
    #[inline]
    fn write(&mut self, bytes: &[u8]) {
        for b in bytes {
            self.0 = self.0.rotate_left(5) ^ (*b as u64);
        }
    }
    #[inline]
    fn write_u8(&mut self, i: u8) {
        self.0 = self.0.rotate_left(5) ^ (i as u64);
    }
    #[inline]
    fn write_u64(&mut self, i: u64) {
        self.0 = self.0.rotate_left(5) ^ i;
    }
    #[inline]
    fn write_usize(&mut self, i: usize) {
        self.0 = self.0.rotate_left(5) ^ (i as u64);
    }
}

impl BuildHasher for DefaultHashBuilder {
    type Hasher = ShimHasher;
    #[inline]
    fn build_hasher(&self) -> ShimHasher {
        ShimHasher(0)
    }
}

pub struct HashMap<K, V, S = DefaultHashBuilder> {
    entries: [Option<(u64, K, V)>; CAP],
    hash_builder: S,
}

impl<K, V> HashMap<K, V, DefaultHashBuilder> {
    #[inline]
    pub fn new() -> Self {
        Self { entries: [None, None, None, None], hash_builder: DefaultHashBuilder }
    }
}

impl<K, V, S: Default> Default for HashMap<K, V, S> {
    fn default() -> Self {
        Self { entries: [None, None, None, None], hash_builder: S::default() }
    }
}

impl<K, V, S> HashMap<K, V, S> {
    #[inline]
    pub fn hasher(&self) -> &S {
        &self.hash_builder
    }
    pub fn len(&self) -> usize {
        let mut n = 0;
        let mut i = 0;
        while i < CAP {
            if self.entries[i].is_some() {
                n += 1;
            }
            i += 1;
        }
        n
    }
    #[inline]
    pub fn is_empty(&self) -> bool {
        self.len() == 0
    }
    pub fn retain<F: FnMut(&K, &mut V) -> bool>(&mut self, mut f: F) {
        let mut i = 0;
        while i < CAP {
            let keep = match &mut self.entries[i] {
                Some(e) => f(&e.1, &mut e.2),
                None => true,
            };
            if !keep {
                self.entries[i] = None;
            }
            i += 1;
        }
    }
    #[inline]
    pub fn raw_entry_mut(&mut self) -> RawEntryBuilderMut<'_, K, V, S> {
        RawEntryBuilderMut { map: self }
    }
    fn position_by(&self, hash: u64, mut is_match: impl FnMut(&K) -> bool) -> Option<usize> {
        let mut i = 0;
        while i < CAP {
            if let Some(e) = &self.entries[i] {
                if e.0 == hash && is_match(&e.1) {
                    return Some(i);
                }
            }
            i += 1;
        }
        None
    }
    fn put(&mut self, hash: u64, k: K, v: V) -> usize {
        let mut i = 0;
        while i < CAP {
            if self.entries[i].is_none() {
                self.entries[i] = Some((hash, k, v));
                return i;
            }
            i += 1;
        }
        panic!("capacity of the hashbrown verification model exceeded");
    }
    fn val(&self, i: usize) -> &V {
        match &self.entries[i] {
            Some(e) => &e.2,
            None => unreachable!(),
        }
    }
    fn val_mut(&mut self, i: usize) -> &mut V {
        match &mut self.entries[i] {
            Some(e) => &mut e.2,
            None => unreachable!(),
        }
    }
    fn take(&mut self, i: usize) -> (K, V) {
        match self.entries[i].take() {
            Some(e) => (e.1, e.2),
            None => unreachable!(),
        }
    }
}

impl<K: Eq + Hash, V, S: BuildHasher> HashMap<K, V, S> {
    fn find<Q: ?Sized + Hash + Equivalent<K>>(&self, k: &Q) -> Option<usize> {
        let hash = self.hash_builder.hash_one(k);
        self.position_by(hash, |x| k.equivalent(x))
    }
    pub fn get<Q: ?Sized + Hash + Equivalent<K>>(&self, k: &Q) -> Option<&V> {
        match self.find(k) {
            Some(i) => Some(self.val(i)),
            None => None,
        }
    }
    pub fn get_mut<Q: ?Sized + Hash + Equivalent<K>>(&mut self, k: &Q) -> Option<&mut V> {
        match self.find(k) {
            Some(i) => Some(self.val_mut(i)),
            None => None,
        }
    }
    pub fn contains_key<Q: ?Sized + Hash + Equivalent<K>>(&self, k: &Q) -> bool {
        self.find(k).is_some()
    }
    pub fn insert(&mut self, k: K, v: V) -> Option<V> {
        match self.find(&k) {
            Some(i) => Some(core::mem::replace(self.val_mut(i), v)),
            None => {
                let hash = self.hash_builder.hash_one(&k);
                self.put(hash, k, v);
                None
            }
        }
    }
    pub fn remove<Q: ?Sized + Hash + Equivalent<K>>(&mut self, k: &Q) -> Option<V> {
        match self.find(k) {
            Some(i) => Some(self.take(i).1),
            None => None,
        }
    }
    pub fn entry(&mut self, key: K) -> Entry<'_, K, V, S> {
        match self.find(&key) {
            Some(index) => Entry::Occupied(OccupiedEntry { map: self, index }),
            None => Entry::Vacant(VacantEntry { map: self, key }),
        }
    }
}

pub enum Entry<'a, K, V, S> {
    Occupied(OccupiedEntry<'a, K, V, S>),
    Vacant(VacantEntry<'a, K, V, S>),
}

pub struct OccupiedEntry<'a, K, V, S> {
    map: &'a mut HashMap<K, V, S>,
    index: usize,
}

pub struct VacantEntry<'a, K, V, S> {
    map: &'a mut HashMap<K, V, S>,
    key: K,
}

impl<'a, K: Hash, V, S: BuildHasher> Entry<'a, K, V, S> {
    pub fn or_insert(self, default: V) -> &'a mut V {
        match self {
            Entry::Occupied(o) => o.map.val_mut(o.index),
            Entry::Vacant(v) => {
                let hash = v.map.hash_builder.hash_one(&v.key);
                let i = v.map.put(hash, v.key, default);
                v.map.val_mut(i)
            }
        }
    }
    pub fn or_default(self) -> &'a mut V
    where
        V: Default,
    {
        self.or_insert(V::default())
    }
}

pub struct RawEntryBuilderMut<'a, K, V, S> {
    map: &'a mut HashMap<K, V, S>,
}

pub enum RawEntryMut<'a, K, V, S> {
    Occupied(RawOccupiedEntryMut<'a, K, V, S>),
    Vacant(RawVacantEntryMut<'a, K, V, S>),
}

pub struct RawOccupiedEntryMut<'a, K, V, S> {
    map: &'a mut HashMap<K, V, S>,
    index: usize,
}

pub struct RawVacantEntryMut<'a, K, V, S> {
    map: &'a mut HashMap<K, V, S>,
}

impl<'a, K, V, S> RawEntryBuilderMut<'a, K, V, S> {
    pub fn from_hash<F: FnMut(&K) -> bool>(self, hash: u64, is_match: F) -> RawEntryMut<'a, K, V, S> {
        match self.map.position_by(hash, is_match) {
            Some(index) => RawEntryMut::Occupied(RawOccupiedEntryMut { map: self.map, index }),
            None => RawEntryMut::Vacant(RawVacantEntryMut { map: self.map }),
        }
    }
    pub fn from_key_hashed_nocheck<Q: ?Sized + Equivalent<K>>(self, hash: u64, k: &Q) -> RawEntryMut<'a, K, V, S> {
        self.from_hash(hash, |x| k.equivalent(x))
    }
    pub fn from_key<Q: ?Sized + Hash + Equivalent<K>>(self, k: &Q) -> RawEntryMut<'a, K, V, S>
    where
        S: BuildHasher,
    {
        let hash = self.map.hash_builder.hash_one(k);
        self.from_hash(hash, |x| k.equivalent(x))
    }
}

impl<'a, K, V, S> RawOccupiedEntryMut<'a, K, V, S> {
    #[inline]
    pub fn get(&self) -> &V {
        self.map.val(self.index)
    }
    #[inline]
    pub fn get_mut(&mut self) -> &mut V {
        self.map.val_mut(self.index)
    }
    #[inline]
    pub fn into_mut(self) -> &'a mut V {
        self.map.val_mut(self.index)
    }
    #[inline]
    pub fn remove(self) -> V {
        self.map.take(self.index).1
    }
    #[inline]
    pub fn remove_entry(self) -> (K, V) {
        self.map.take(self.index)
    }
}

impl<'a, K, V, S> RawVacantEntryMut<'a, K, V, S> {
    pub fn insert_hashed_nocheck(self, hash: u64, key: K, value: V) -> (&'a mut K, &'a mut V) {
        let i = self.map.put(hash, key, value);
        match &mut self.map.entries[i] {
            Some(e) => (&mut e.1, &mut e.2),
            None => unreachable!(),
        }
    }
}

pub mod hash_map {
    pub use crate::{
        DefaultHashBuilder, Entry, HashMap, OccupiedEntry, RawEntryBuilderMut, RawEntryMut, RawOccupiedEntryMut,
        RawVacantEntryMut, VacantEntry,
    };
}
