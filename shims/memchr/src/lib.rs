//! Verification model of the `memchr` crate: naive reference loops with the documented contract.
pub fn memchr(n1: u8, haystack: &[u8]) -> Option<usize> {
    let mut i = 0;
    while i < haystack.len() {
        if haystack[i] == n1 { return Some(i); }
        i += 1;
    }
    None
}
pub fn memchr2(n1: u8, n2: u8, haystack: &[u8]) -> Option<usize> {
    let mut i = 0;
    while i < haystack.len() {
        let b = haystack[i];
        if b == n1 || b == n2 { return Some(i); }
        i += 1;
    }
    None
}
pub fn memchr3(n1: u8, n2: u8, n3: u8, haystack: &[u8]) -> Option<usize> {
    let mut i = 0;
    while i < haystack.len() {
        let b = haystack[i];
        if b == n1 || b == n2 || b == n3 { return Some(i); }
        i += 1;
    }
    None
}
