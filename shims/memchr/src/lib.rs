//! Verification model of the `memchr` crate: naive reference loops with the documented contract.
pub fn memchr(n1: u8, haystack: &[u8]) -> Option<usize> {
    let mut i = 0;
    while i < haystack.len() {
        if haystack[i] == n1 { return Some(i); }
        i += 1;
    }
    None
}
pub fn memchr2(n1: u8, n2: u8, haystack: &[u8]) -> Option<usize> {
    let mut i = 0;
    while i < haystack.len() {
        let b = haystack[i];
        if b == n1 || b == n2 { return Some(i); }
        i += 1;
    }
    None
}
pub fn memchr3(n1: u8, n2: u8, n3: u8, haystack: &[u8]) -> Option<usize> {
    let mut i = 0;
    while i < haystack.len() {
        let b = haystack[i];
        if b == n1 || b == n2 || b == n3 { return Some(i); }
        i += 1;
    }
    None
}

pub fn memrchr(n1: u8, haystack: &[u8]) -> Option<usize> {
    let mut i = haystack.len();
    while i > 0 {
        i -= 1;
        if haystack[i] == n1 { return Some(i); }
    }
    None
}
pub fn memrchr2(n1: u8, n2: u8, haystack: &[u8]) -> Option<usize> {
    let mut i = haystack.len();
    while i > 0 {
        i -= 1;
        let b = haystack[i];
        if b == n1 || b == n2 { return Some(i); }
    }
    None
}
pub fn memrchr3(n1: u8, n2: u8, n3: u8, haystack: &[u8]) -> Option<usize> {
    let mut i = haystack.len();
    while i > 0 {
        i -= 1;
        let b = haystack[i];
        if b == n1 || b == n2 || b == n3 { return Some(i); }
    }
    None
}

/// Iterator over all positions of up to three needles (documented contract of memchr's `Memchr*` iterators).
pub struct Memchr<'h> {
    needles: [u8; 3],
    count: usize,
    haystack: &'h [u8],
    front: usize,
    back: usize,
}
pub type Memchr2<'h> = Memchr<'h>;
pub type Memchr3<'h> = Memchr<'h>;

impl<'h> Memchr<'h> {
    fn is_needle(&self, b: u8) -> bool {
        let mut i = 0;
        while i < self.count {
            if self.needles[i] == b { return true; }
            i += 1;
        }
        false
    }
}
impl<'h> Iterator for Memchr<'h> {
    type Item = usize;
    fn next(&mut self) -> Option<usize> {
        while self.front < self.back {
            let i = self.front;
            self.front += 1;
            if self.is_needle(self.haystack[i]) { return Some(i); }
        }
        None
    }
}
impl<'h> DoubleEndedIterator for Memchr<'h> {
    fn next_back(&mut self) -> Option<usize> {
        while self.back > self.front {
            self.back -= 1;
            if self.is_needle(self.haystack[self.back]) { return Some(self.back); }
        }
        None
    }
}
pub fn memchr_iter(n1: u8, haystack: &[u8]) -> Memchr<'_> {
    Memchr { needles: [n1, 0, 0], count: 1, haystack, front: 0, back: haystack.len() }
}
pub fn memchr2_iter(n1: u8, n2: u8, haystack: &[u8]) -> Memchr<'_> {
    Memchr { needles: [n1, n2, 0], count: 2, haystack, front: 0, back: haystack.len() }
}
pub fn memchr3_iter(n1: u8, n2: u8, n3: u8, haystack: &[u8]) -> Memchr<'_> {
    Memchr { needles: [n1, n2, n3], count: 3, haystack, front: 0, back: haystack.len() }
}
pub fn memrchr_iter(n1: u8, haystack: &[u8]) -> core::iter::Rev<Memchr<'_>> {
    memchr_iter(n1, haystack).rev()
}

pub mod memmem {
    //! naive substring search with the documented contract of `memchr::memmem`
    pub fn find(haystack: &[u8], needle: &[u8]) -> Option<usize> {
        if needle.len() > haystack.len() { return None; }
        let mut i = 0;
        while i + needle.len() <= haystack.len() {
            let mut j = 0;
            while j < needle.len() && haystack[i + j] == needle[j] { j += 1; }
            if j == needle.len() { return Some(i); }
            i += 1;
        }
        None
    }
    pub fn rfind(haystack: &[u8], needle: &[u8]) -> Option<usize> {
        if needle.len() > haystack.len() { return None; }
        let mut i = haystack.len() - needle.len() + 1;
        while i > 0 {
            i -= 1;
            let mut j = 0;
            while j < needle.len() && haystack[i + j] == needle[j] { j += 1; }
            if j == needle.len() { return Some(i); }
        }
        None
    }
}
