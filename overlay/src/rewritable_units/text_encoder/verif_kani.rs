//! Kani harness: UTF-8 re-synchronisation of streamed content (C13 claimed clause, C15).
//! Child module of `rewritable_units::text_encoder`.
use super::*;

const CN: usize = 2; // @thorough 3

#[derive(PartialEq, Clone, Copy)]
enum St {
    Complete,
    Incomplete,
    Invalid,
}

fn is_cont(b: u8) -> bool {
    b & 0xC0 == 0x80
}

/// Reference UTF-8 scanner (Unicode Table 3-7): (length of the longest valid prefix, status of the rest)
fn scan(b: &[u8]) -> (usize, St) {
    let mut i = 0;
    while i < b.len() {
        let b0 = b[i];
        let (len, lo, hi) = match b0 {
            0x00..=0x7F => (1, 0, 0),
            0xC2..=0xDF => (2, 0x80, 0xBF),
            0xE0 => (3, 0xA0, 0xBF),
            0xE1..=0xEC | 0xEE..=0xEF => (3, 0x80, 0xBF),
            0xED => (3, 0x80, 0x9F),
            0xF0 => (4, 0x90, 0xBF),
            0xF1..=0xF3 => (4, 0x80, 0xBF),
            0xF4 => (4, 0x80, 0x8F),
            _ => return (i, St::Invalid),
        };
        let mut k = 1;
        while k < len {
            if i + k >= b.len() {
                return (i, St::Incomplete);
            }
            let c = b[i + k];
            let ok = if k == 1 { c >= lo && c <= hi } else { is_cont(c) };
            if !ok {
                return (i, St::Invalid);
            }
            k += 1;
        }
        i += len;
    }
    (i, St::Complete)
}

fn width(b0: u8) -> usize {
    match b0 {
        0xC2..=0xDF => 2,
        0xE0..=0xEF => 3,
        0xF0..=0xF4 => 4,
        _ => 0,
    }
}

/// what a previous write may leave buffered: nothing, or a lead byte followed by fewer continuation bytes
/// than its width needs
fn buffered_ok(r: &IncompleteUtf8Resync) -> bool {
    let len = r.char_len as usize;
    if len == 0 {
        return true;
    }
    let w = width(r.char_bytes[0]);
    if !(w >= 2 && len < w) {
        return false;
    }
    let mut i = 1;
    while i < len {
        if !is_cont(r.char_bytes[i]) {
            return false;
        }
        i += 1;
    }
    true
}

/// One write of <= CN arbitrary bytes from an arbitrary buffered state (inductive over any number of
/// writes, i.e. over every split of a stream): no byte is lost, duplicated or reordered between what
/// was flushed as text and what stays buffered; valid UTF-8 is flushed completely and never refused;
/// an error is returned only if the bytes so far contain a sequence that is definitely invalid.
// @verif props=C13,C15 fns=IncompleteUtf8Resync::write_utf8_chunk,IncompleteUtf8Resync::utf8_bytes_to_slice
#[kani::proof]
#[kani::unwind(9)] // @thorough 10
fn c13_utf8_resync_one_write_conserves_bytes() {
    let mut r = IncompleteUtf8Resync::new();
    r.char_bytes = kani::any();
    r.char_len = kani::any();
    kani::assume(r.char_len <= 3 && buffered_ok(&r));
    let old_len = r.char_len as usize;
    let content: [u8; CN] = kani::any();
    let n: usize = kani::any();
    kani::assume(n <= CN);
    let mut all = [0u8; 3 + CN];
    let mut i = 0;
    while i < old_len {
        all[i] = r.char_bytes[i];
        i += 1;
    }
    let mut j = 0;
    while j < n {
        all[old_len + j] = content[j];
        j += 1;
    }
    let total = old_len + n;
    let mut out = [0u8; 3 + CN];
    let mut olen = 0usize;
    let res = r.write_utf8_chunk(&content[..n], |s: &str| {
        let b = s.as_bytes();
        let mut k = 0;
        while k < b.len() {
            if olen < 3 + CN {
                out[olen] = b[k];
            }
            olen += 1;
            k += 1;
        }
    });
    let (v, st) = scan(&all[..total]);
    // flushed text is a prefix of the stream
    assert!(olen <= total);
    let mut k = 0;
    while k < olen {
        assert!(out[k] == all[k]);
        k += 1;
    }
    match res {
        Ok(()) => {
            assert!(buffered_ok(&r));
            let bl = r.char_len as usize;
            assert!(olen + bl == total, "no byte lost or duplicated");
            let mut k = 0;
            while k < bl {
                assert!(r.char_bytes[k] == all[olen + k]);
                k += 1;
            }
            if st == St::Complete {
                assert!(bl == 0 && olen == total, "valid UTF-8 is flushed completely");
            }
            if st == St::Incomplete {
                assert!(olen == v, "everything before the unfinished character is flushed");
            }
        }
        Err(_) => {
            assert!(st == St::Invalid, "only definitely invalid input is refused");
            assert!(olen <= v);
        }
    }
    kani::cover!(res.is_ok() && old_len == 2 && n == CN && r.char_len == 0 && olen == total);
    kani::cover!(res.is_err());
    kani::cover!(res.is_ok() && old_len == 0 && r.char_len == 1);
}
