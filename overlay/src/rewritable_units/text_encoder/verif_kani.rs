//! Kani harness: UTF-8 re-synchronisation of streamed content (C13 claimed clause, C15).
//! Child module of `rewritable_units::text_encoder`.
// @requires src/verif_kani_utf8.rs
use super::*;
use crate::verif_kani_utf8::*;
use core::sync::atomic::Ordering;

const CN: usize = 2; // @thorough 3

fn width(b0: u8) -> usize {
    match b0 {
        0xC2..=0xDF => 2,
        0xE0..=0xEF => 3,
        0xF0..=0xF4 => 4,
        _ => 0,
    }
}

/// what a previous write may leave buffered: nothing, or a lead byte followed by fewer continuation bytes
/// than its width needs
fn buffered_ok(r: &IncompleteUtf8Resync) -> bool {
    let len = r.char_len as usize;
    if len == 0 {
        return true;
    }
    let w = width(r.char_bytes[0]);
    if !(w >= 2 && len < w) {
        return false;
    }
    let mut i = 1;
    while i < len {
        if !is_cont(r.char_bytes[i]) {
            return false;
        }
        i += 1;
    }
    true
}


/// The model used as a stub equals the real `std::str::from_utf8` on every byte string of <= MN bytes
/// (verdict, `valid_up_to`, and whether the error is definite).
// @verif props=C13,C15 fns=core::str::from_utf8
#[kani::proof]
#[kani::unwind(8)] // @thorough 9
fn c13_from_utf8_model_agrees_with_std() {
    const MN: usize = 4; // @thorough 5
    let b: [u8; MN] = kani::any();
    let n: usize = kani::any();
    kani::assume(n <= MN);
    let real = std::str::from_utf8(&b[..n]);
    let model = model_from_utf8(&b[..n]);
    match (real, model) {
        (Ok(a), Ok(m)) => assert!(a.len() == m.len() && a.len() == n),
        (Err(a), Err(_)) => {
            assert!(a.valid_up_to() == LAST_VALID.load(Ordering::Relaxed));
            assert!(a.error_len().is_some() == (LAST_DEFINITE.load(Ordering::Relaxed) == 1));
        }
        _ => panic!("from_utf8 model disagrees with std"),
    }
    kani::cover!(n == MN && real.is_ok() && b[0] >= 0xF0);
    kani::cover!(matches!(real, Err(e) if e.error_len().is_none() && e.valid_up_to() == 1));
}

/// One call of `utf8_bytes_to_slice` with <= CN arbitrary bytes from an arbitrary buffered state. This is the
/// step `write_utf8_chunk` iterates, so it is inductive over any number of calls and writes, i.e. over every
/// split of a stream: no byte is lost, duplicated or reordered between what is returned as text, what stays
/// buffered and what is handed back as the unchecked rest; every call makes progress (the caller's loop
/// terminates); a stream that is a prefix of valid UTF-8 is never refused and its complete characters are
/// returned, not held back; an error means the bytes so far contain a definitely invalid sequence.
// @verif props=C13,C15 fns=IncompleteUtf8Resync::utf8_bytes_to_slice,IncompleteUtf8Resync::write_utf8_chunk
#[kani::proof]
#[kani::stub(core::str::from_utf8, model_from_utf8)]
#[kani::stub(core::str::Utf8Error::valid_up_to, model_valid_up_to)]
#[kani::stub(core::str::Utf8Error::error_len, model_error_len)]
#[kani::unwind(9)] // @thorough 10
fn c13_utf8_resync_step_conserves_bytes() {
    let mut r = IncompleteUtf8Resync::new();
    r.char_bytes = kani::any();
    r.char_len = kani::any();
    kani::assume(r.char_len <= 3 && buffered_ok(&r));
    let old_len = r.char_len as usize;
    let content: [u8; CN] = kani::any();
    let n: usize = kani::any();
    kani::assume(n <= CN);
    let mut all = [0u8; 3 + CN];
    let mut i = 0;
    while i < old_len {
        all[i] = r.char_bytes[i];
        i += 1;
    }
    let mut j = 0;
    while j < n {
        all[old_len + j] = content[j];
        j += 1;
    }
    let total = old_len + n;
    let (v, st) = scan(&all[..total]);
    let mut out = [0u8; 3 + CN];
    let mut olen = 0usize;
    let mut rest_len = 0usize;
    let is_ok;
    match r.utf8_bytes_to_slice(&content[..n]) {
        Ok((text, rest)) => {
            is_ok = true;
            let b = text.as_bytes();
            olen = b.len();
            assert!(olen <= 3 + CN);
            let mut k = 0;
            while k < olen {
                out[k] = b[k];
                k += 1;
            }
            rest_len = rest.len();
            assert!(rest_len <= n);
            // the rest is the tail of the content, untouched
            let mut k = 0;
            while k < rest_len {
                assert!(rest[k] == content[n - rest_len + k], "[C13] unchecked rest is the tail of the written bytes");
                k += 1;
            }
        }
        Err(_) => {
            is_ok = false;
        }
    }
    if is_ok {
        let bl = r.char_len as usize;
        assert!(buffered_ok(&r), "[C13] what stays buffered is an unfinished character");
        assert!(olen + bl + rest_len == total, "[C13] no byte lost or duplicated");
        let mut k = 0;
        while k < olen {
            assert!(out[k] == all[k], "[C13] returned text is the next bytes of the stream");
            k += 1;
        }
        let mut k = 0;
        while k < bl {
            assert!(r.char_bytes[k] == all[olen + k], "[C13] buffered bytes are the next bytes of the stream");
            k += 1;
        }
        assert!(n == 0 || rest_len < n, "[C13,C15] every call consumes input (the write loop terminates)");
        if old_len == 0 && st != St::Invalid {
            assert!(olen == v && rest_len == 0, "[C13] complete characters are returned, only an unfinished one is kept");
        }
        if old_len > 0 && olen == 0 {
            assert!(rest_len == 0 && bl == total, "[C13] nothing returned only while the character is still unfinished");
        }
    } else {
        assert!(st == St::Invalid, "[C13] only definitely invalid input is refused");
    }
    kani::cover!(is_ok && old_len == 2 && n == CN && r.char_len == 0 && olen == 3);
    kani::cover!(!is_ok);
    kani::cover!(is_ok && old_len == 0 && r.char_len == 1);
    kani::cover!(is_ok && old_len == 3 && olen == 4 && rest_len == 1);
}
