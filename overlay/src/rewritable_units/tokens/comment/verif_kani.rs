//! Kani harness: the comment-text reject list is sufficient (C08). Child module of
//! `rewritable_units::tokens::comment`.
use super::*;

const N: usize = 5; // @thorough 6

#[derive(Copy, Clone, PartialEq)]
enum S {
    Start,
    StartDash,
    Comment,
    Lt,
    LtBang,
    LtBangDash,
    LtBangDashDash,
    EndDash,
    End,
    EndBang,
    Closed,
}

/// WHATWG comment sub-automaton (§13.2.5.43–52), state after consuming byte c; comment data is not
/// tracked, only where the comment ends.
fn step(s: S, c: u8) -> S {
    match s {
        S::Start => match c {
            b'-' => S::StartDash,
            b'>' => S::Closed,
            _ => step(S::Comment, c),
        },
        S::StartDash => match c {
            b'-' => S::End,
            b'>' => S::Closed,
            _ => step(S::Comment, c),
        },
        S::Comment => match c {
            b'<' => S::Lt,
            b'-' => S::EndDash,
            _ => S::Comment,
        },
        S::Lt => match c {
            b'!' => S::LtBang,
            b'<' => S::Lt,
            _ => step(S::Comment, c),
        },
        S::LtBang => match c {
            b'-' => S::LtBangDash,
            _ => step(S::Comment, c),
        },
        S::LtBangDash => match c {
            b'-' => S::LtBangDashDash,
            _ => step(S::EndDash, c),
        },
        S::LtBangDashDash => step(S::End, c),
        S::EndDash => match c {
            b'-' => S::End,
            _ => step(S::Comment, c),
        },
        S::End => match c {
            b'>' => S::Closed,
            b'!' => S::EndBang,
            b'-' => S::End,
            _ => step(S::Comment, c),
        },
        S::EndBang => match c {
            b'-' => S::EndDash,
            b'>' => S::Closed,
            _ => step(S::Comment, c),
        },
        S::Closed => S::Closed,
    }
}

/// If set_text accepts a text (no closing sequence found), then "<!--" text "-->" is exactly one
/// comment: a WHATWG tokenizer started after "<!--" closes the comment at the final '>' and not earlier.
/// ASCII text (the rejected sequences are ASCII; other UTF-8 bytes never equal them).
// @verif props=C08,C15 fns=contains_comment_closing_sequence
#[kani::proof]
#[kani::unwind(10)] // @thorough 11
fn c08_accepted_comment_text_cannot_close_the_comment_early() {
    let bytes: [u8; N] = kani::any();
    let n: usize = kani::any();
    kani::assume(n <= N);
    let mut i = 0;
    while i < N {
        kani::assume(bytes[i] < 0x80);
        i += 1;
    }
    let Ok(text) = std::str::from_utf8(&bytes[..n]) else { return; };
    let rejected = contains_comment_closing_sequence(text);
    let mut s = S::Start;
    let mut k = 0;
    let mut closed_early = false;
    while k < n {
        s = step(s, bytes[k]);
        if s == S::Closed {
            closed_early = true;
        }
        k += 1;
    }
    s = step(s, b'-');
    if s == S::Closed {
        closed_early = true;
    }
    s = step(s, b'-');
    if s == S::Closed {
        closed_early = true;
    }
    s = step(s, b'>');
    if !rejected {
        assert!(!closed_early, "[C08] accepted comment text cannot end the comment early");
        assert!(s == S::Closed, "[C08] the serialised comment is closed by its own -->");
    }
    kani::cover!(!rejected && n == N && bytes[0] == b'-' && bytes[1] == b'-' && bytes[2] == b'!');
    kani::cover!(rejected && closed_early);
    kani::cover!(!rejected && n >= 3 && bytes[n - 1] == b'-' && bytes[n - 2] == b'<');
}
