//! Kani harness: token serialisation (C01: unmodified = raw; C15). The C07 mutation scripts are out of reach. Child module of `rewritable_units::tokens::end_tag`. Instantiation: EndTag (the before/after/
//! replace/remove plumbing is the shared `impl_serialize!` + `Mutations` code of every token type).
use super::*;
use crate::base::Spanned;
use crate::rewritable_units::Serialize;

const OUT: usize = 8;

struct Out {
    buf: [u8; OUT],
    len: usize,
}

fn push(o: &mut Out, b: &[u8]) {
    // every piece handed to the sink in these scripts is at most 4 bytes long (the raw end tag); longer
    // pieces are recorded as a length overflow so that the loop has a small concrete bound
    if b.len() > 4 {
        o.len = OUT + 1;
        return;
    }
    let mut i = 0;
    while i < b.len() && i < 4 {
        if o.len < OUT {
            o.buf[o.len] = b[i];
        }
        o.len += 1;
        i += 1;
    }
}

/// One two-operation script over {0 before, 1 after, 2 replace, 3 remove, 4 nothing} on an end tag whose 4
/// raw bytes are symbolic: output = all `before` contents in call order, then the token's own bytes (or
/// the last replacement if replaced; nothing if removed), then all `after` contents in reverse call
/// order. An untouched token serialises as exactly its raw bytes.
fn run_script(ops: [u8; 2]) {
    let raw: [u8; 4] = kani::any();
    let contents: [&str; 2] = ["1", "2"];
    let Token::EndTag(mut t) = EndTag::new_token(Bytes::new(&raw[2..3]), Spanned::new(0, Bytes::new(&raw)).into(), encoding_rs::UTF_8) else {
        unreachable!()
    };
    let mut before = Out { buf: [0; OUT], len: 0 };
    let mut after = Out { buf: [0; OUT], len: 0 };
    let mut replacement: Option<&str> = None;
    let mut removed = false;
    let mut k = 0;
    while k < 2 {
        let c = contents[k];
        match ops[k] {
            0 => {
                t.before(c, ContentType::Html);
                push(&mut before, c.as_bytes());
            }
            1 => {
                t.after(c, ContentType::Html);
                // after() prepends: later insertions come first
                let mut tmp = Out { buf: [0; OUT], len: 0 };
                push(&mut tmp, c.as_bytes());
                push(&mut tmp, &after.buf[..after.len]);
                after = tmp;
            }
            2 => {
                t.replace(c, ContentType::Html);
                replacement = Some(c);
                removed = true;
            }
            3 => {
                t.remove();
                removed = true;
            }
            _ => {}
        }
        k += 1;
    }
    assert!(t.removed() == removed);
    let mut want = Out { buf: [0; OUT], len: 0 };
    push(&mut want, &before.buf[..before.len]);
    if !removed {
        push(&mut want, &raw);
    } else if let Some(r) = replacement {
        push(&mut want, r.as_bytes());
    }
    push(&mut want, &after.buf[..after.len]);
    let mut got = Out { buf: [0; OUT], len: 0 };
    let r = t.into_bytes(&mut |b: &[u8]| push(&mut got, b));
    assert!(r.is_ok());
    assert!(got.len == want.len);
    let mut i = 0;
    while i < want.len {
        assert!(got.buf[i] == want.buf[i]);
        i += 1;
    }
    kani::cover!(raw[0] == b'<');
    core::mem::forget(r);
}

/// An untouched token serialises as exactly its raw bytes. (The scripts with before/after/replace/remove
/// are kept in `run_script` but are NOT registered: heap-stored content strings become symbolic for the
/// solver and every two-operation script needs > 10 GB — DESIGN §5, C07.)
// @verif props=C01,C15 fns=impl_serialize,EndTag::serialize_self
#[kani::proof]
#[kani::unwind(8)]
fn c01_untouched_token_serialises_as_its_raw_bytes() {
    run_script([4, 4]);
}

/// Renaming: a renamed end tag serialises as "</" name ">" (no stale raw bytes), an untouched one as raw.
// @verif props=C01,C15 fns=EndTag::set_name_raw,EndTag::serialize_self
#[kani::proof]
#[kani::unwind(10)]
fn c01_renamed_end_tag_serialises_from_its_parts() {
    let raw: [u8; 4] = kani::any();
    let Token::EndTag(mut t) = EndTag::new_token(Bytes::new(&raw[2..3]), Spanned::new(0, Bytes::new(&raw)).into(), encoding_rs::UTF_8) else {
        unreachable!()
    };
    let new_name: [u8; 2] = kani::any();
    t.set_name_raw(BytesCow::from(&new_name[..]).into_owned());
    let mut got = Out { buf: [0; OUT], len: 0 };
    let r = t.into_bytes(&mut |b: &[u8]| push(&mut got, b));
    assert!(r.is_ok());
    assert!(got.len == 5);
    assert!(got.buf[0] == b'<' && got.buf[1] == b'/' && got.buf[2] == new_name[0] && got.buf[3] == new_name[1] && got.buf[4] == b'>');
    kani::cover!(raw[1] != b'/');
}
