//! Kani harness: token-level rewrite operations serialise as documented (C07, C01 unmodified = raw,
//! C15). Child module of `rewritable_units::tokens::end_tag`. Instantiation: EndTag (the before/after/
//! replace/remove plumbing is the shared `impl_serialize!` + `Mutations` code of every token type).
use super::*;
use crate::base::Spanned;
use crate::rewritable_units::Serialize;

const OUT: usize = 16;

struct Out {
    buf: [u8; OUT],
    len: usize,
}

fn push(o: &mut Out, b: &[u8]) {
    let mut i = 0;
    while i < b.len() {
        if o.len < OUT {
            o.buf[o.len] = b[i];
        }
        o.len += 1;
        i += 1;
    }
}

/// Every script of two operations from {before, after, replace, remove, nothing} (enumerated) on an end
/// tag whose 4 raw bytes are symbolic: output = all `before` contents in call order, then the token's own
/// bytes (or the last replacement if replaced; nothing if removed), then all `after` contents in reverse
/// call order. An untouched token serialises as exactly its raw bytes.
// @verif props=C07,C01,C15 fns=impl_serialize,MutationsInner::replace,MutationsInner::remove,DynamicString::encode,EndTag::serialize_self
#[kani::proof]
#[kani::unwind(18)]
fn c07_token_mutation_scripts_serialise_as_documented() {
    let raw: [u8; 4] = kani::any();
    let contents: [&str; 2] = ["1", "2"];
    let mut op0 = 0;
    while op0 < 5 {
        let mut op1 = 0;
        while op1 < 5 {
            let ops = [op0, op1];
            let Token::EndTag(mut t) = EndTag::new_token(Bytes::new(&raw[2..3]), Spanned::new(0, Bytes::new(&raw)).into(), encoding_rs::UTF_8) else {
                unreachable!()
            };
            // reference editor
            let mut before = Out { buf: [0; OUT], len: 0 };
            let mut after = Out { buf: [0; OUT], len: 0 };
            let mut replacement: Option<&str> = None;
            let mut removed = false;
            let mut k = 0;
            while k < 2 {
                let c = contents[k];
                match ops[k] {
                    0 => {
                        t.before(c, ContentType::Html);
                        push(&mut before, c.as_bytes());
                    }
                    1 => {
                        t.after(c, ContentType::Html);
                        // after() prepends: later insertions come first
                        let mut tmp = Out { buf: [0; OUT], len: 0 };
                        push(&mut tmp, c.as_bytes());
                        push(&mut tmp, &after.buf[..after.len]);
                        after = tmp;
                    }
                    2 => {
                        t.replace(c, ContentType::Html);
                        replacement = Some(c);
                        removed = true;
                    }
                    3 => {
                        t.remove();
                        removed = true;
                    }
                    _ => {}
                }
                k += 1;
            }
            assert!(t.removed() == removed);
            let mut want = Out { buf: [0; OUT], len: 0 };
            push(&mut want, &before.buf[..before.len]);
            if !removed {
                push(&mut want, &raw);
            } else if let Some(r) = replacement {
                push(&mut want, r.as_bytes());
            }
            push(&mut want, &after.buf[..after.len]);
            let mut got = Out { buf: [0; OUT], len: 0 };
            let r = t.into_bytes(&mut |b: &[u8]| push(&mut got, b));
            assert!(r.is_ok());
            assert!(got.len == want.len);
            let mut i = 0;
            while i < want.len {
                assert!(got.buf[i] == want.buf[i]);
                i += 1;
            }
            op1 += 1;
        }
        op0 += 1;
    }
    kani::cover!(raw[0] == b'<');
}

/// Renaming: a renamed end tag serialises as "</" name ">" (no stale raw bytes), an untouched one as raw.
// @verif props=C07,C15 fns=EndTag::set_name_raw,EndTag::serialize_self
#[kani::proof]
#[kani::unwind(10)]
fn c07_renamed_end_tag_serialises_from_its_parts() {
    let raw: [u8; 4] = kani::any();
    let Token::EndTag(mut t) = EndTag::new_token(Bytes::new(&raw[2..3]), Spanned::new(0, Bytes::new(&raw)).into(), encoding_rs::UTF_8) else {
        unreachable!()
    };
    let new_name: [u8; 2] = kani::any();
    t.set_name_raw(BytesCow::from(&new_name[..]).into_owned());
    let mut got = Out { buf: [0; OUT], len: 0 };
    let r = t.into_bytes(&mut |b: &[u8]| push(&mut got, b));
    assert!(r.is_ok());
    assert!(got.len == 5);
    assert!(got.buf[0] == b'<' && got.buf[1] == b'/' && got.buf[2] == new_name[0] && got.buf[3] == new_name[1] && got.buf[4] == b'>');
    kani::cover!(raw[1] != b'/');
}
