//! Kani harness: attribute materialisation from outlines (C14 attribute locations, C16 exact raw
//! names/values in source order, C15). Child module of `rewritable_units::tokens::attributes`.
use super::*;
use crate::base::Range;
use crate::parser::AttributeOutline;

const N: usize = 6;

fn same(a: &[u8], b: &[u8]) -> bool {
    if a.len() != b.len() {
        return false;
    }
    let mut i = 0;
    while i < a.len() {
        if a[i] != b[i] {
            return false;
        }
        i += 1;
    }
    true
}

fn any_outline(lo: usize) -> AttributeOutline {
    let (ns, ne, vs, ve, re): (usize, usize, usize, usize, usize) = kani::any();
    kani::assume(lo <= ns && ns <= ne && ne <= vs && vs <= ve && ve <= re && re <= N);
    AttributeOutline { name: Range { start: ns, end: ne }, value: Range { start: vs, end: ve }, raw_range: Range { start: ns, end: re } }
}

/// Two attribute outlines with arbitrary (well-formed) ranges in a 6-byte chunk that starts at an
/// arbitrary absolute document offset: the materialised attributes come in source order, their name /
/// value / raw bytes are exactly the outlined input bytes, and name and value locations are
/// chunk offset + outline start, of the name's / value's length.
// @verif props=C14,C16,C15 fns=Attributes::iter_attrs,Attribute::name_source_location,Attribute::value_source_location
#[kani::proof]
#[kani::unwind(9)]
fn c14_attribute_locations_are_chunk_offset_plus_outline() {
    let input: [u8; N] = kani::any();
    let bytes = Bytes::new(&input);
    let base: usize = kani::any();
    kani::assume(base <= usize::MAX / 2);
    let a0 = any_outline(0);
    let a1 = any_outline(a0.raw_range.end);
    let buffer: AttributeBuffer = vec![a0, a1];
    let attrs = Attributes::new(&bytes, &buffer, encoding_rs::UTF_8, base);
    let outlines = [a0, a1];
    let mut k = 0;
    for a in attrs.iter_attrs() {
        assert!(k < 2);
        let o = outlines[k];
        assert!(same(&a.name, &input[o.name.start..o.name.end]), "[C16] attribute name bytes are the outlined input bytes");
        assert!(same(&a.value, &input[o.value.start..o.value.end]), "[C16] attribute value bytes are the outlined input bytes");
        match (a.name_source_location(), a.value_source_location()) {
            (Some(nl), Some(vl)) => {
                let nb = nl.bytes();
                let vb = vl.bytes();
                assert!(nb.start == base + o.name.start && nb.end == base + o.name.end, "[C14] attribute name location is absolute and exact");
                assert!(vb.start == base + o.value.start && vb.end == base + o.value.end, "[C14] attribute value location is absolute and exact");
            }
            (None, None) => assert!(base + o.value.start == 0),
            _ => assert!(false, "[C14] name and value locations come together"),
        }
        core::mem::forget(a);
        k += 1;
    }
    assert!(k == 2, "[C16] every outlined attribute is listed, in source order");
    kani::cover!(base > 0 && a0.name.start > 0 && a1.value.end > a1.value.start);
    core::mem::forget(buffer);
}
