//! Kani harness: attribute materialisation from outlines (C14 attribute locations, C16 exact raw
//! names/values in source order, C15). Child module of `rewritable_units::tokens::attributes`.
use super::*;
use crate::base::Range;
use crate::parser::AttributeOutline;

const N: usize = 6;

fn same(a: &[u8], b: &[u8]) -> bool {
    if a.len() != b.len() {
        return false;
    }
    let mut i = 0;
    while i < a.len() {
        if a[i] != b[i] {
            return false;
        }
        i += 1;
    }
    true
}

fn any_outline(lo: usize) -> AttributeOutline {
    let (ns, ne, vs, ve, re): (usize, usize, usize, usize, usize) = kani::any();
    kani::assume(lo <= ns && ns <= ne && ne <= vs && vs <= ve && ve <= re && re <= N);
    AttributeOutline { name: Range { start: ns, end: ne }, value: Range { start: vs, end: ve }, raw_range: Range { start: ns, end: re } }
}

/// Two attribute outlines with arbitrary (well-formed) ranges in a 6-byte chunk that starts at an
/// arbitrary absolute document offset: the materialised attributes come in source order, their name /
/// value / raw bytes are exactly the outlined input bytes, and name and value locations are
/// chunk offset + outline start, of the name's / value's length.
// @verif props=C14,C16,C15 fns=Attributes::iter_attrs,Attribute::name_source_location,Attribute::value_source_location
#[kani::proof]
#[kani::unwind(9)]
fn c14_attribute_locations_are_chunk_offset_plus_outline() {
    let input: [u8; N] = kani::any();
    let bytes = Bytes::new(&input);
    let base: usize = kani::any();
    kani::assume(base <= usize::MAX / 2);
    let a0 = any_outline(0);
    let a1 = any_outline(a0.raw_range.end);
    let buffer: AttributeBuffer = vec![a0, a1];
    let attrs = Attributes::new(&bytes, &buffer, encoding_rs::UTF_8, base);
    let outlines = [a0, a1];
    let mut k = 0;
    for a in attrs.iter_attrs() {
        assert!(k < 2);
        let o = outlines[k];
        assert!(same(&a.name, &input[o.name.start..o.name.end]), "[C16] attribute name bytes are the outlined input bytes");
        assert!(same(&a.value, &input[o.value.start..o.value.end]), "[C16] attribute value bytes are the outlined input bytes");
        match (a.name_source_location(), a.value_source_location()) {
            (Some(nl), Some(vl)) => {
                let nb = nl.bytes();
                let vb = vl.bytes();
                assert!(nb.start == base + o.name.start && nb.end == base + o.name.end, "[C14] attribute name location is absolute and exact");
                assert!(vb.start == base + o.value.start && vb.end == base + o.value.end, "[C14] attribute value location is absolute and exact");
            }
            (None, None) => assert!(base + o.value.start == 0),
            _ => assert!(false, "[C14] name and value locations come together"),
        }
        core::mem::forget(a);
        k += 1;
    }
    assert!(k == 2, "[C16] every outlined attribute is listed, in source order");
    kani::cover!(base > 0 && a0.name.start > 0 && a1.value.end > a1.value.start);
    core::mem::forget(buffer);
}

/// Model of `encoding_rs::Encoding::encode` for the UTF-8 output encoding (documented: the input is returned
/// borrowed, nothing is replaced). Only used with `encoding_rs::UTF_8`.
fn model_encode_utf8<'a>(e: &'static encoding_rs::Encoding, s: &'a str) -> (std::borrow::Cow<'a, [u8]>, &'static encoding_rs::Encoding, bool) {
    assert!(e == encoding_rs::UTF_8);
    (std::borrow::Cow::Borrowed(s.as_bytes()), e, false)
}

/// `remove_attribute` on a start tag with two parsed attributes whose one-byte names are arbitrary (so both,
/// one or none may spell `a` in either case): afterwards no attribute of that name is left (a duplicate must
/// not resurface), the others are kept in source order with their bytes, the return value says whether
/// anything was removed, and the read API (`has_attribute`) reflects the edit.
// @verif props=C16,C15 fns=Attributes::remove_attribute,Attributes::has_attribute,Attribute::name_from_string
#[kani::proof]
#[kani::stub(encoding_rs::Encoding::encode, model_encode_utf8)]
#[kani::unwind(6)]
fn c16_remove_attribute_removes_every_duplicate() {
    let input: [u8; 4] = kani::any();
    let bytes = Bytes::new(&input);
    let a0 = AttributeOutline { name: Range { start: 0, end: 1 }, value: Range { start: 1, end: 2 }, raw_range: Range { start: 0, end: 2 } };
    let a1 = AttributeOutline { name: Range { start: 2, end: 3 }, value: Range { start: 3, end: 4 }, raw_range: Range { start: 2, end: 4 } };
    let buffer: AttributeBuffer = vec![a0, a1];
    let mut attrs = Attributes::new(&bytes, &buffer, encoding_rs::UTF_8, 0);
    let m0 = input[0] == b'a' || input[0] == b'A';
    let m1 = input[2] == b'a' || input[2] == b'A';
    let removed = attrs.remove_attribute("A");
    assert!(removed == (m0 || m1), "[C16] remove_attribute reports whether the attribute existed");
    assert!(!attrs.has_attribute("a"), "[C16] a removed attribute is gone, duplicates included");
    let items = attrs.to_slice();
    let want = 2 - (m0 as usize) - (m1 as usize);
    assert!(items.len() == want, "[C16] exactly the attributes of that name are removed");
    if !m0 {
        assert!(items[0].name.len() == 1 && items[0].name[0] == input[0] && items[0].value[0] == input[1], "[C16] other attributes keep their bytes and order");
    }
    if !m1 {
        let k = want - 1;
        assert!(items[k].name.len() == 1 && items[k].name[0] == input[2] && items[k].value[0] == input[3], "[C16] other attributes keep their bytes and order");
    }
    kani::cover!(m0 && m1);
    kani::cover!(!m0 && m1);
    kani::cover!(!m0 && !m1);
    core::mem::forget(attrs);
    core::mem::forget(buffer);
}

/// C08: an attribute name accepted by the validator contains none of the bytes on which the tokenizer's
/// `attribute_name_state` ends the name (the set is extracted from /repo's DSL at check time, so validator and
/// tokenizer are compared with each other, not with a constant written here), is not empty, and is stored
/// byte for byte (UTF-8); every rejected name contains such a byte or is empty (no over-rejection).
// @verif props=C08,C15 fns=Attribute::name_from_string
// @requires src/verif_kani_dsl_facts_gen.rs
#[kani::proof]
#[kani::stub(encoding_rs::Encoding::encode, model_encode_utf8)]
#[kani::unwind(9)]
fn c08_accepted_attribute_names_cannot_end_the_name_in_the_tokenizer() {
    use crate::verif_kani_dsl_facts_gen::ATTRIBUTE_NAME_TERMINATORS as TERM;
    const L: usize = 3; // @thorough 4
    let raw: [u8; L] = kani::any();
    let n: usize = kani::any();
    kani::assume(n <= L);
    let mut name = String::new();
    let mut has_term = false;
    let mut i = 0;
    while i < n {
        kani::assume(raw[i] < 0x80);
        name.push(raw[i] as char);
        let mut t = 0;
        while t < TERM.len() {
            if TERM[t] == raw[i] {
                has_term = true;
            }
            t += 1;
        }
        i += 1;
    }
    assert!(TERM.len() >= 3 && TERM.len() <= 8);
    match Attribute::name_from_string(name, encoding_rs::UTF_8) {
        Ok(b) => {
            assert!(!has_term, "[C08] an accepted attribute name contains no byte that ends a name in the tokenizer");
            assert!(n > 0 && b.len() == n, "[C08] an accepted attribute name is non-empty and stored unchanged");
            let mut k = 0;
            while k < n {
                assert!(b[k] == raw[k], "[C08] an accepted attribute name is stored unchanged");
                k += 1;
            }
            core::mem::forget(b);
        }
        Err(e) => {
            assert!(has_term || n == 0, "[C08] only names the tokenizer would split are rejected");
            core::mem::forget(e);
        }
    }
    kani::cover!(n == L && !has_term);
    kani::cover!(n == L && has_term && raw[L - 1] == b'=');
}
