//! Re-exports of harness helpers that live in the private module `html::local_name`.
// @requires src/html/local_name/verif_kani.rs
#![allow(unused_imports)]
pub(crate) use super::local_name::verif_kani::{full_hash, hash_of};
