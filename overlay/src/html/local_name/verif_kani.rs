//! Kani harnesses: tag-name hashing and LocalName comparison (C04 names compare ASCII case-insensitively,
//! C15, C03 helper). Child module of `html::local_name` (LocalNameHash's field is private to it).
use super::*;

/// an arbitrary 64-bit hash value (including the invalidated one)
pub(crate) fn full_hash() -> LocalNameHash {
    LocalNameHash(kani::any())
}

pub(crate) fn hash_of(name: &[u8]) -> LocalNameHash {
    let mut h = LocalNameHash::new();
    let mut i = 0;
    while i < name.len() {
        h.update(name[i]);
        i += 1;
    }
    h
}

fn lc(b: u8) -> u8 {
    if b >= b'A' && b <= b'Z' { b + 32 } else { b }
}

fn eq_ci(a: &[u8], b: &[u8]) -> bool {
    if a.len() != b.len() {
        return false;
    }
    let mut i = 0;
    while i < a.len() {
        if lc(a[i]) != lc(b[i]) {
            return false;
        }
        i += 1;
    }
    true
}

const LN: usize = 3; // @thorough 4

/// Two tag names (arbitrary bytes, first byte a letter as the tokenizer guarantees) compare equal as
/// `LocalName`s  ⇔  they are ASCII-case-insensitively equal byte strings — through the hash
/// representation when both are hashable and through the bytes representation otherwise.
// @verif props=C04,C15,C16 fns=LocalNameHash::update,LocalName::new,LocalName::eq
#[kani::proof]
#[kani::unwind(6)] // @thorough 7
fn c04_local_name_eq_iff_ascii_case_insensitive_equal() {
    let a: [u8; LN] = kani::any();
    let b: [u8; LN] = kani::any();
    let la: usize = kani::any();
    let lb: usize = kani::any();
    kani::assume(la >= 1 && la <= LN && lb >= 1 && lb <= LN);
    kani::assume(a[0].is_ascii_alphabetic() && b[0].is_ascii_alphabetic());
    let ha = hash_of(&a[..la]);
    let hb = hash_of(&b[..lb]);
    let na = LocalName::new(Bytes::new(&a), Range { start: 0, end: la }, ha);
    let nb = LocalName::new(Bytes::new(&b), Range { start: 0, end: lb }, hb);
    let want = eq_ci(&a[..la], &b[..lb]);
    assert!((na == nb) == want);
    kani::cover!(want && a[0] != b[0] && la == LN && !ha.is_empty());
    kani::cover!(want && ha.is_empty() && a[1] != b[1]);
    kani::cover!(!want && ha.is_empty() != hb.is_empty());
    core::mem::forget(na);
    core::mem::forget(nb);
}

/// `update` never panics or overflows from any hash state and any byte, and an invalidated hash stays
/// invalidated (so long or non-alphanumeric names can never collide with a standard tag).
// @verif props=C15,C04 fns=LocalNameHash::update
#[kani::proof]
fn c15_local_name_hash_update_total_and_sticky() {
    let mut h = full_hash();
    let was_empty = h.is_empty();
    h.update(kani::any());
    if was_empty {
        assert!(h.is_empty());
    }
    kani::cover!(!was_empty && h.is_empty());
    kani::cover!(!h.is_empty());
}

/// Hashing is lossless or invalidates: from any valid (non-invalidated) hash, appending a hashable
/// character either keeps every earlier character recoverable (new >> 5 == old) or invalidates the
/// hash — it never silently drops the leading character, so a long custom name can never collide with a
/// standard tag name (text-mode switches, void elements, the strict-mode guard all compare hashes).
// @verif props=C03,C04,C15,C16 fns=LocalNameHash::update
#[kani::proof]
fn c03_tag_name_hash_never_drops_characters() {
    let mut h = full_hash();
    kani::assume(!h.is_empty());
    let old = h.0;
    let c: u8 = kani::any();
    h.update(c);
    if !h.is_empty() {
        assert!(h.0 >> 5 == old, "[C03,C04,C16] appending a character keeps all earlier characters");
        assert!(c.is_ascii_alphabetic() || (c >= b'1' && c <= b'6'));
    }
    kani::cover!(!h.is_empty() && old >> 54 != 0);
    kani::cover!(h.is_empty() && c == b'a');
}
