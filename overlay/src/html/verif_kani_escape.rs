//! Kani harnesses: text and attribute-value escaping (C08, C15). Child module of `html`.
use super::*;

const N: usize = 4; // @thorough 5

/// Text content type: the output contains no '<' or '>', every '&' in it starts one of the three
/// entities, and un-escaping gives the input back (ASCII input; non-ASCII bytes are passed through
/// unchanged by the same code path and cannot contain these three ASCII bytes in UTF-8).
// @verif props=C08,C15 fns=escape_body_text
#[kani::proof]
#[kani::unwind(8)] // @thorough 9
fn c08_escape_body_text_is_markup_free_and_invertible() {
    let bytes: [u8; N] = kani::any();
    let n: usize = kani::any();
    kani::assume(n <= N);
    let mut i = 0;
    while i < N {
        kani::assume(bytes[i] < 0x80);
        i += 1;
    }
    let Ok(s) = std::str::from_utf8(&bytes[..n]) else { return; };
    let mut out = [0u8; 5 * N];
    let mut len = 0usize;
    escape_body_text(s, &mut |chunk: &str| {
        let b = chunk.as_bytes();
        assert!(!b.is_empty());
        let mut j = 0;
        while j < b.len() {
            out[len] = b[j];
            len += 1;
            j += 1;
        }
    });
    let mut o = 0usize;
    let mut k = 0usize;
    while k < n {
        let c = bytes[k];
        if c == b'<' {
            assert!(o + 4 <= len && out[o] == b'&' && out[o + 1] == b'l' && out[o + 2] == b't' && out[o + 3] == b';');
            o += 4;
        } else if c == b'>' {
            assert!(o + 4 <= len && out[o] == b'&' && out[o + 1] == b'g' && out[o + 2] == b't' && out[o + 3] == b';');
            o += 4;
        } else if c == b'&' {
            assert!(o + 5 <= len && out[o] == b'&' && out[o + 1] == b'a' && out[o + 2] == b'm' && out[o + 3] == b'p' && out[o + 4] == b';');
            o += 5;
        } else {
            assert!(o < len && out[o] == c);
            o += 1;
        }
        k += 1;
    }
    assert!(o == len);
    kani::cover!(n == N && bytes[0] == b'<' && bytes[1] == b'&' && bytes[2] == b'a');
}

/// Attribute values: every '"' becomes &quot; and nothing else changes, so the value cannot end the
/// double-quoted attribute it is serialised into (arbitrary bytes).
// @verif props=C08,C15 fns=escape_double_quotes_only
#[kani::proof]
#[kani::unwind(8)] // @thorough 9
fn c08_escape_double_quotes_only_leaves_no_quote() {
    let bytes: [u8; N] = kani::any();
    let n: usize = kani::any();
    kani::assume(n <= N);
    let mut out = [0u8; 6 * N];
    let mut len = 0usize;
    escape_double_quotes_only(Bytes::new(&bytes[..n]), &mut |b: &[u8]| {
        let mut j = 0;
        while j < b.len() {
            out[len] = b[j];
            len += 1;
            j += 1;
        }
    });
    let q = b"&quot;";
    let mut o = 0usize;
    let mut k = 0usize;
    while k < n {
        if bytes[k] == b'"' {
            assert!(o + 6 <= len);
            let mut t = 0;
            while t < 6 {
                assert!(out[o + t] == q[t]);
                t += 1;
            }
            o += 6;
        } else {
            assert!(o < len && out[o] == bytes[k]);
            o += 1;
        }
        k += 1;
    }
    assert!(o == len);
    kani::cover!(n == N && bytes[1] == b'"' && bytes[3] == b'"');
}
