//! Kani harnesses: the dispatcher's byte accounting (C01 dispatcher tiling, C11 commit points, C12 sink
//! protocol, C09 flush, C15). Child module of `transform_stream::dispatcher`; state is injected into
//! `DispatcherDelegate`'s private fields, the token layer is replaced by a mock that emits the lexeme's
//! raw bytes (what an unmodified token serialises to — the token types have their own harnesses).
// @requires src/transform_stream/dispatcher/verif_kani_mocks.rs
use super::verif_kani_mocks::{Ctl, Rec, CAP};
use super::*;
use crate::base::SharedEncoding;

const N: usize = 6; // @thorough 8

fn delegate(rcs: usize, emission_enabled: bool, fail_end: bool) -> DispatcherDelegate<Ctl, Rec> {
    let mut sink = Rec::new_announced();
    sink.enc_calls = 1; // Dispatcher::new announced the encoding (separate harness)
    DispatcherDelegate {
        transform_controller: Ctl { fail_at: usize::MAX, tokens: 0, ends: 0, bail_outs: 0, sink_len_at_bail_out: 0, fail_end },
        output_sink: sink,
        remaining_content_start: rcs,
        capture_flags: TokenCaptureFlags::empty(),
        emission_enabled,
    }
}

fn sink_is(s: &Rec, want: &[u8]) -> bool {
    if s.len != want.len() {
        return false;
    }
    let mut i = 0;
    while i < want.len() {
        if s.buf[i] != want[i] {
            return false;
        }
        i += 1;
    }
    true
}

fn lex<'i>(input: &'i [u8], start: usize, end: usize) -> Lexeme<'i, ()> {
    Lexeme::new(0, Bytes::new(input), (), Range { start, end })
}

/// C01/C11: two captured lexemes in one chunk. For each: emit the bytes before it, then the token
/// (mock: its raw bytes; fails at a SYMBOLIC token index), then commit. Success ⇒ after
/// flush_remaining_input(consumed) the sink holds exactly input[rcs0..consumed], each byte once.
/// Failure ⇒ remaining_content_start still points at the failing lexeme's start and a bail-out flush
/// completes the sink to exactly input[rcs0..] — no byte lost or duplicated.
// @verif props=C01,C11,C12,C15 fns=DispatcherDelegate::emit_chunk_before_lexeme,DispatcherDelegate::consume_lexeme,DispatcherDelegate::flush_remaining_input
#[kani::proof]
#[kani::unwind(10)] // @thorough 12
fn c01_dispatcher_tiles_chunk_and_commits_after_token() {
    let input: [u8; N] = kani::any();
    let n: usize = kani::any();
    kani::assume(n <= N);
    let input = &input[..n];
    let (rcs, s1, e1, s2, e2, consumed): (usize, usize, usize, usize, usize, usize) = kani::any();
    kani::assume(rcs <= s1 && s1 <= e1 && e1 <= s2 && s2 <= e2 && e2 <= consumed && consumed <= n);
    let fail_at: usize = kani::any();
    let mut d = delegate(rcs, true, false);
    let lexemes = [(s1, e1), (s2, e2)];
    let mut failed = false;
    let mut k = 0;
    while k < 2 {
        let (s, e) = lexemes[k];
        let l = lex(input, s, e);
        d.emit_chunk_before_lexeme(&l);
        assert!(d.remaining_content_start == s);
        if k == fail_at {
            // token emission failed (handler error / memory): nothing of the lexeme was emitted
            failed = true;
            break;
        }
        if e > s {
            d.output_sink.handle_chunk(&input[s..e]);
        }
        d.consume_lexeme(&l);
        assert!(d.remaining_content_start == e);
        k += 1;
    }
    if failed {
        // what TransformStream::write does on a graceful bail-out
        let out = input.get(d.remaining_content_start..).unwrap_or_default();
        if !out.is_empty() {
            d.output_sink.handle_chunk(out);
        }
        assert!(sink_is(&d.output_sink, &input[rcs..]));
        kani::cover!(fail_at == 1 && s1 < e1 && e1 < s2);
    } else {
        d.flush_remaining_input(input, consumed);
        assert!(d.remaining_content_start == 0);
        assert!(sink_is(&d.output_sink, &input[rcs..consumed]));
        kani::cover!(rcs < s1 && s1 < e1 && e1 < s2 && s2 < e2 && e2 < consumed && consumed < n);
    }
    assert!(d.output_sink.empty_chunks == 0, "[C12] no zero-length chunk before the end");
    core::mem::forget(d);
}

/// C01/C07: with emission disabled (content of a removed element) nothing reaches the sink, but the
/// bookkeeping advances identically.
// @verif props=C01,C12,C15 fns=DispatcherDelegate::emit_chunk_before_lexeme,DispatcherDelegate::flush_remaining_input
#[kani::proof]
#[kani::unwind(10)] // @thorough 12
fn c01_dispatcher_emission_disabled_emits_nothing() {
    let input: [u8; N] = kani::any();
    let (rcs, s, e, consumed): (usize, usize, usize, usize) = kani::any();
    kani::assume(rcs <= s && s <= e && e <= consumed && consumed <= N);
    let mut d = delegate(rcs, false, false);
    let l = lex(&input, s, e);
    d.emit_chunk_before_lexeme(&l);
    assert!(d.remaining_content_start == s);
    d.consume_lexeme(&l);
    d.flush_remaining_input(&input, consumed);
    assert!(d.remaining_content_start == 0);
    assert!(d.output_sink.chunks == 0 && d.output_sink.len == 0);
    kani::cover!(rcs < s && e < consumed);
    core::mem::forget(d);
}

/// C12/C01: finish() flushes every remaining input byte, calls the end handler once, then sends
/// exactly one zero-length chunk as the very last call — and sends none if the end handler failed.
// @verif props=C12,C01,C11,C15 fns=DispatcherDelegate::finish
#[kani::proof]
#[kani::unwind(10)] // @thorough 12
fn c12_finish_flushes_all_then_single_empty_chunk() {
    let input: [u8; N] = kani::any();
    let n: usize = kani::any();
    let rcs: usize = kani::any();
    kani::assume(n <= N && rcs <= n);
    let input = &input[..n];
    let fail_end: bool = kani::any();
    let mut d = delegate(rcs, true, fail_end);
    let r = d.finish(encoding_rs::UTF_8, input);
    assert!(d.transform_controller.ends == 1);
    assert!(r.is_ok() == !fail_end);
    let s = &d.output_sink;
    assert!(sink_is(s, &input[rcs..]), "[C01,C11] every remaining input byte is flushed before the end handler runs");
    assert!(!s.data_after_empty);
    if fail_end {
        assert!(s.empty_chunks == 0);
        assert!(s.chunks == if rcs < n { 1 } else { 0 });
    } else {
        assert!(s.empty_chunks == 1);
        assert!(s.chunks == if rcs < n { 2 } else { 1 });
    }
    kani::cover!(!fail_end && rcs < n && rcs > 0);
    kani::cover!(fail_end && rcs == n);
    core::mem::forget(r);
    core::mem::forget(d);
}

fn dispatcher(rcs: usize, emission_enabled: bool) -> Dispatcher<Ctl, Rec> {
    let enc = AsciiCompatibleEncoding::utf_8();
    Dispatcher {
        delegate: delegate(rcs, emission_enabled, false),
        text_decoder: TextDecoder::new(enc),
        last_text_type: TextType::Data,
        got_flags_from_hint: false,
        pending_element_aux_info_req: None,
        encoding: enc,
        next_encoding: SharedEncoding::default(),
    }
}

/// C11: the graceful bail-out flush — handlers run exactly once, before the raw flush; the raw flush
/// emits chunk[rcs..] regardless of emission_enabled (documented exception made explicit) and never a
/// zero-length chunk; a second flush of a further chunk starts at 0 (append-failure site flushes
/// buffered tail ++ data).
// @verif props=C11,C12,C15 fns=Dispatcher::run_bail_out_handlers,Dispatcher::flush_for_bail_out
#[kani::proof]
#[kani::unwind(10)] // @thorough 12
fn c11_bail_out_flush_emits_exactly_the_unemitted_rest() {
    let input: [u8; N] = kani::any();
    let n: usize = kani::any();
    let m: usize = kani::any();
    let rcs: usize = kani::any();
    kani::assume(m <= n && n <= N && rcs <= m);
    let emission_enabled: bool = kani::any();
    let mut d = dispatcher(rcs, emission_enabled);
    let err = RewritingError::MemoryLimitExceeded(crate::memory::MemoryLimitExceededError);
    d.run_bail_out_handlers(&err);
    assert!(d.delegate.transform_controller.bail_outs == 1);
    assert!(d.delegate.output_sink.chunks == 0);
    // buffered tail, then the new data (site 1 of write())
    d.flush_for_bail_out(&input[..m]);
    assert!(d.delegate.remaining_content_start == 0);
    d.flush_for_bail_out(&input[m..n]);
    assert!(sink_is(&d.delegate.output_sink, &input[rcs..n]));
    assert!(d.delegate.output_sink.empty_chunks == 0);
    assert!(d.delegate.transform_controller.bail_outs == 1);
    kani::cover!(!emission_enabled && rcs > 0 && rcs < m && m < n);
    core::mem::forget(d);
}

/// C12/C13: the sink is told the encoding before its first chunk; a pending meta-charset switch is
/// announced exactly once, only if it differs, and idempotently.
// @verif props=C12,C15 fns=Dispatcher::new,Dispatcher::flush_encoding_change
#[kani::proof]
#[kani::unwind(6)]
fn c12_encoding_announced_before_data_and_switch_once() {
    let enc = AsciiCompatibleEncoding::utf_8();
    let shared = SharedEncoding::default();
    let mut d = Dispatcher::new(
        Ctl { fail_at: usize::MAX, tokens: 0, ends: 0, bail_outs: 0, sink_len_at_bail_out: 0, fail_end: false },
        Rec::new_pub(),
        enc,
        shared.clone(),
    );
    assert!(d.delegate.output_sink.enc_calls == 1 && d.delegate.output_sink.chunks == 0);
    assert!(d.delegate.remaining_content_start == 0 && d.delegate.emission_enabled);
    d.flush_encoding_change();
    assert!(d.delegate.output_sink.enc_calls == 1);
    let same: bool = kani::any();
    let other = if same { enc } else { AsciiCompatibleEncoding::new(encoding_rs::WINDOWS_1252).unwrap() };
    let _ = shared.set(other);
    d.flush_encoding_change();
    assert!(d.delegate.output_sink.enc_calls == if same { 1 } else { 2 });
    d.flush_encoding_change();
    assert!(d.delegate.output_sink.enc_calls == if same { 1 } else { 2 });
    assert!(!d.delegate.output_sink.chunk_before_enc);
    kani::cover!(!same);
    core::mem::forget(d);
}
