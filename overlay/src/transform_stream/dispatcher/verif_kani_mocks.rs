//! Mock controller and recording sink shared by the dispatcher and TransformStream harnesses.
//! Child module of `transform_stream::dispatcher` (kept free of calls into private functions so that it
//! keeps compiling when those change).
#![allow(dead_code)]
use super::*;

pub(crate) const CAP: usize = 16;

pub(crate) struct Ctl {
    pub fail_at: usize,
    pub tokens: usize,
    pub ends: usize,
    pub bail_outs: usize,
    pub sink_len_at_bail_out: usize,
    pub fail_end: bool,
}

impl TransformController for Ctl {
    fn initial_capture_flags(&self) -> TokenCaptureFlags {
        TokenCaptureFlags::empty()
    }
    fn handle_start_tag(&mut self, _n: LocalName<'_>, _ns: Namespace) -> StartTagHandlingResult<Self> {
        Ok(TokenCaptureFlags::empty())
    }
    fn handle_end_tag(&mut self, _n: LocalName<'_>) -> TokenCaptureFlags {
        TokenCaptureFlags::empty()
    }
    fn handle_token(&mut self, _t: &mut Token<'_>) -> Result<(), RewritingError> {
        Ok(())
    }
    fn handle_end(&mut self, _d: &mut DocumentEnd<'_>) -> Result<(), RewritingError> {
        self.ends += 1;
        if self.fail_end {
            Err(RewritingError::MemoryLimitExceeded(crate::memory::MemoryLimitExceededError))
        } else {
            Ok(())
        }
    }
    fn should_emit_content(&self) -> bool {
        true
    }
    fn handle_bail_out(&mut self, _e: &RewritingError, _b: &mut BailOut<'_>) {
        self.bail_outs += 1;
    }
}

pub(crate) struct Rec {
    pub buf: [u8; CAP],
    pub len: usize,
    pub chunks: usize,
    pub empty_chunks: usize,
    pub data_after_empty: bool,
    pub enc_calls: usize,
    pub chunk_before_enc: bool,
}

impl Rec {
    pub(crate) fn new_pub() -> Self {
        Self::new()
    }
    /// a sink that has already been told the encoding
    pub(crate) fn new_announced() -> Self {
        let mut r = Self::new();
        r.enc_calls = 1;
        r
    }
    fn new() -> Self {
        Rec { buf: [0; CAP], len: 0, chunks: 0, empty_chunks: 0, data_after_empty: false, enc_calls: 0, chunk_before_enc: false }
    }
}

impl OutputSink for Rec {
    fn handle_chunk(&mut self, c: &[u8]) {
        self.chunks += 1;
        if self.enc_calls == 0 {
            self.chunk_before_enc = true;
        }
        if self.empty_chunks > 0 {
            self.data_after_empty = true;
        }
        if c.is_empty() {
            self.empty_chunks += 1;
        }
        let mut i = 0;
        while i < c.len() {
            if self.len < CAP {
                self.buf[self.len] = c[i];
            }
            self.len += 1;
            i += 1;
        }
    }
    fn set_encoding(&mut self, _e: AsciiCompatibleEncoding) {
        self.enc_calls += 1;
    }
}


impl Dispatcher<Ctl, Rec> {
    /// read access for harnesses of the parent module
    pub(crate) fn verif_parts(&mut self) -> (&Rec, &Ctl) {
        (&self.delegate.output_sink, &self.delegate.transform_controller)
    }
}
