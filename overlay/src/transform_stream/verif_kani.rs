//! Kani harnesses: the write()/end() glue of TransformStream on CONCRETE small documents with a SYMBOLIC
//! memory limit and symbolic bail-out flags (C11 failure sites, C12, C09 flush). The parser runs on
//! concrete bytes (tractable); what the solver quantifies over is the limit, the flags and the failure.
//! Child module of `transform_stream`.
// @requires src/transform_stream/dispatcher/verif_kani_mocks.rs
// @requires src/memory/verif_kani.rs
use super::dispatcher::verif_kani_mocks::{Ctl, Rec};
use super::*;
use crate::base::SharedEncoding;

fn stream(limit: usize, mem_flag: bool, handler_flag: bool, fail_end: bool) -> TransformStream<Ctl, Rec> {
    TransformStream::new(TransformStreamSettings {
        transform_controller: Ctl { fail_at: usize::MAX, tokens: 0, ends: 0, bail_outs: 0, sink_len_at_bail_out: 0, fail_end },
        output_sink: Rec::new_pub(),
        preallocated_parsing_buffer_size: 0,
        memory_limiter: SharedMemoryLimiter::new(limit),
        encoding: AsciiCompatibleEncoding::utf_8(),
        next_encoding: SharedEncoding::default(),
        strict: false,
        graceful_bail_out_on_memory_limit_exceeded: mem_flag,
        graceful_bail_out_on_content_handler_error: handler_flag,
    })
}

fn sink_is(s: &Rec, want: &[u8]) -> bool {
    if s.len != want.len() {
        return false;
    }
    let mut i = 0;
    while i < want.len() {
        if s.buf[i] != want[i] {
            return false;
        }
        i += 1;
    }
    true
}

/// Site 3 of write(): parsing succeeded, the unconsumed tail ("<im", an unfinished tag) cannot be
/// buffered under the limit. Graceful ⇒ the sink holds every received byte exactly once (consumed prefix
/// + raw tail) and handlers ran once; not graceful ⇒ only the consumed prefix; enough memory ⇒ Ok.
// @verif props=C11,C10,C09,C12,C15 fns=TransformStream::write,TransformStream::should_bail_out_for
#[kani::proof]
#[kani::unwind(12)]
fn c11_write_tail_buffering_failure_flushes_each_byte_once() {
    let limit: usize = kani::any();
    kani::assume(limit <= 8);
    let mem_flag: bool = kani::any();
    let handler_flag: bool = kani::any();
    let mut ts = stream(limit, mem_flag, handler_flag, false);
    let data = b"ab<im";
    let r = ts.write(data);
    let d = ts.parser.get_dispatcher();
    let (sink, ctl) = d.verif_parts();
    if limit >= 3 {
        assert!(r.is_ok(), "[C10] a tail that fits the limit is buffered");
        assert!(sink_is(sink, b"ab"), "[C09] everything before the unfinished tag is emitted at once");
        assert!(ctl.bail_outs == 0);
    } else {
        assert!(matches!(r, Err(RewritingError::MemoryLimitExceeded(_))), "[C10] exceeding the limit is reported");
        if mem_flag {
            assert!(sink_is(sink, data), "[C11] no received byte is lost or duplicated on a graceful bail-out");
            assert!(ctl.bail_outs == 1, "[C11] bail-out handlers run exactly once");
        } else {
            assert!(sink_is(sink, b"ab"), "[C11,C12] without the flag nothing is flushed");
            assert!(ctl.bail_outs == 0);
        }
    }
    assert!(sink.empty_chunks == 0);
    kani::cover!(limit == 2 && mem_flag);
    kani::cover!(limit == 3);
    core::mem::forget(r);
    core::mem::forget(ts);
}

/// Site 1 of write(): new data cannot be appended to an already buffered tail (injected: "<b" buffered
/// from an earlier write — only ONE call into the rewriter per harness is within solver reach). Graceful ⇒
/// the sink gets tail ++ data, each byte once, handlers once; otherwise nothing. The failing limits are
/// enumerated concretely, the flags are symbolic.
// @verif props=C11,C10,C12,C15 fns=TransformStream::write
#[kani::proof]
#[kani::unwind(12)]
fn c11_write_append_failure_flushes_tail_and_data() {
    let mem_flag: bool = kani::any();
    let handler_flag: bool = kani::any();
    let mut limit = 2;
    while limit <= 4 {
        let mut ts = stream(limit, mem_flag, handler_flag, false);
        ts.has_buffered_data = true;
        ts.buffer = crate::memory::verif_kani::arena_holding2(SharedMemoryLimiter::new(limit), *b"<b");
        let r2 = ts.write(b"r x");
        let d = ts.parser.get_dispatcher();
        let (sink, ctl) = d.verif_parts();
        assert!(matches!(r2, Err(RewritingError::MemoryLimitExceeded(_))), "[C10] exceeding the limit is reported");
        if mem_flag {
            assert!(sink_is(sink, b"<br x"), "[C11] buffered tail and new data are flushed, in order, once");
            assert!(ctl.bail_outs == 1, "[C11] bail-out handlers run exactly once");
        } else {
            assert!(sink.len == 0, "[C11,C12] without the flag nothing is flushed");
            assert!(ctl.bail_outs == 0);
        }
        assert!(sink.empty_chunks == 0);
        core::mem::forget(r2);
        core::mem::forget(ts);
        limit += 1;
    }
    kani::cover!(mem_flag);
    kani::cover!(!mem_flag);
}

/// end() with a held-back tail (injected: "<b" buffered): the tail is emitted exactly once, the end handler
/// runs once after it, then the single empty chunk; an end-handler error is NOT a bail-out point (every
/// byte is already in the sink): no bail-out handler runs and nothing is flushed twice, whatever the flags.
// @verif props=C11,C12,C01,C15 fns=TransformStream::end
#[kani::proof]
#[kani::unwind(12)]
fn c12_end_flushes_tail_once_and_no_bail_out_on_end_handler_error() {
    let fail_end: bool = kani::any();
    let handler_flag: bool = kani::any();
    let mem_flag: bool = kani::any();
    let mut ts = stream(64, mem_flag, handler_flag, fail_end);
    ts.has_buffered_data = true;
    ts.buffer = crate::memory::verif_kani::arena_holding2(SharedMemoryLimiter::new(64), *b"<b");
    let r = ts.end();
    let d = ts.parser.get_dispatcher();
    let (sink, ctl) = d.verif_parts();
    assert!(r.is_ok() == !fail_end);
    assert!(sink_is(sink, b"<b"), "[C01,C11] the held-back tail is emitted exactly once at end()");
    assert!(ctl.ends == 1);
    assert!(ctl.bail_outs == 0, "[C11] the end handler's error arrives after every byte is in the sink: no bail-out");
    assert!(sink.empty_chunks == if fail_end { 0 } else { 1 }, "[C12] one final empty chunk iff end() succeeded");
    assert!(!sink.data_after_empty);
    kani::cover!(fail_end && handler_flag);
    kani::cover!(!fail_end);
    core::mem::forget(r);
    core::mem::forget(ts);
}

// NOTE: whole-document scenarios for C09 ("a</1>b", "<title></b>c", ... with a symbolic last byte) were tried
// here and do not fit: after a handful of state calls the state-function pointer of the parsing loop is a join
// of paths and every further step explores ~70 targets (> 8 GB, no verdict in 10 min). C09 is decided by the
// per-state scanner lemmas instead.
