//! Kani harnesses: the write()/end() glue of TransformStream on CONCRETE small documents with a SYMBOLIC
//! memory limit and symbolic bail-out flags (C11 failure sites, C12, C09 flush). The parser runs on
//! concrete bytes (tractable); what the solver quantifies over is the limit, the flags and the failure.
//! Child module of `transform_stream`.
// @requires src/transform_stream/dispatcher/verif_kani_mocks.rs
use super::dispatcher::verif_kani_mocks::{Ctl, Rec};
use super::*;
use crate::base::SharedEncoding;

fn stream(limit: usize, mem_flag: bool, handler_flag: bool, fail_end: bool) -> TransformStream<Ctl, Rec> {
    TransformStream::new(TransformStreamSettings {
        transform_controller: Ctl { fail_at: usize::MAX, tokens: 0, ends: 0, bail_outs: 0, sink_len_at_bail_out: 0, fail_end },
        output_sink: Rec::new_pub(),
        preallocated_parsing_buffer_size: 0,
        memory_limiter: SharedMemoryLimiter::new(limit),
        encoding: AsciiCompatibleEncoding::utf_8(),
        next_encoding: SharedEncoding::default(),
        strict: false,
        graceful_bail_out_on_memory_limit_exceeded: mem_flag,
        graceful_bail_out_on_content_handler_error: handler_flag,
    })
}

fn sink_is(s: &Rec, want: &[u8]) -> bool {
    if s.len != want.len() {
        return false;
    }
    let mut i = 0;
    while i < want.len() {
        if s.buf[i] != want[i] {
            return false;
        }
        i += 1;
    }
    true
}

/// Site 3 of write(): parsing succeeded, the unconsumed tail ("<im", an unfinished tag) cannot be
/// buffered under the limit. Graceful ⇒ the sink holds every received byte exactly once (consumed prefix
/// + raw tail) and handlers ran once; not graceful ⇒ only the consumed prefix; enough memory ⇒ Ok.
// @verif props=C11,C10,C09,C12,C15 fns=TransformStream::write,TransformStream::should_bail_out_for
#[kani::proof]
#[kani::unwind(12)]
fn c11_write_tail_buffering_failure_flushes_each_byte_once() {
    let limit: usize = kani::any();
    kani::assume(limit <= 8);
    let mem_flag: bool = kani::any();
    let handler_flag: bool = kani::any();
    let mut ts = stream(limit, mem_flag, handler_flag, false);
    let data = b"ab<im";
    let r = ts.write(data);
    let d = ts.parser.get_dispatcher();
    let (sink, ctl) = d.verif_parts();
    if limit >= 3 {
        assert!(r.is_ok(), "[C10] a tail that fits the limit is buffered");
        assert!(sink_is(sink, b"ab"), "[C09] everything before the unfinished tag is emitted at once");
        assert!(ctl.bail_outs == 0);
    } else {
        assert!(matches!(r, Err(RewritingError::MemoryLimitExceeded(_))), "[C10] exceeding the limit is reported");
        if mem_flag {
            assert!(sink_is(sink, data), "[C11] no received byte is lost or duplicated on a graceful bail-out");
            assert!(ctl.bail_outs == 1, "[C11] bail-out handlers run exactly once");
        } else {
            assert!(sink_is(sink, b"ab"), "[C11,C12] without the flag nothing is flushed");
            assert!(ctl.bail_outs == 0);
        }
    }
    assert!(sink.empty_chunks == 0);
    kani::cover!(limit == 2 && mem_flag);
    kani::cover!(limit == 3);
    core::mem::forget(r);
    core::mem::forget(ts);
}

/// Site 1 of write(): a second write cannot be appended to the buffered tail. Graceful ⇒ tail ++ data.
// @verif props=C11,C10,C12,C15 fns=TransformStream::write
#[kani::proof]
#[kani::unwind(12)]
fn c11_write_append_failure_flushes_tail_and_data() {
    let limit: usize = kani::any();
    kani::assume(limit >= 3 && limit <= 8);
    let mem_flag: bool = kani::any();
    let mut ts = stream(limit, mem_flag, kani::any(), false);
    let r1 = ts.write(b"ab<im");
    assert!(r1.is_ok());
    let r2 = ts.write(b"g x");
    let d = ts.parser.get_dispatcher();
    let (sink, ctl) = d.verif_parts();
    if limit >= 6 {
        assert!(r2.is_ok());
        assert!(sink_is(sink, b"ab<img x"), "[C09] once the tag name is complete nothing is held back (no handlers)");
    } else {
        assert!(r2.is_err());
        if mem_flag {
            assert!(sink_is(sink, b"ab<img x"), "[C11] buffered tail and new data are flushed, in order, once");
            assert!(ctl.bail_outs == 1);
        } else {
            assert!(sink_is(sink, b"ab"));
        }
    }
    kani::cover!(limit == 5 && mem_flag);
    kani::cover!(limit == 6);
    core::mem::forget(r1);
    core::mem::forget(r2);
    core::mem::forget(ts);
}

/// end(): the buffered tail is flushed once, the end handler runs once, then the single empty chunk;
/// an end-handler error leaves the tail emitted exactly once and runs no bail-out handler.
// @verif props=C11,C12,C01,C15 fns=TransformStream::end
#[kani::proof]
#[kani::unwind(12)]
fn c12_end_flushes_tail_once_even_if_end_handler_fails() {
    let fail_end: bool = kani::any();
    let handler_flag: bool = kani::any();
    let mut ts = stream(64, kani::any(), handler_flag, fail_end);
    let r1 = ts.write(b"a<b");
    assert!(r1.is_ok());
    let r = ts.end();
    let d = ts.parser.get_dispatcher();
    let (sink, ctl) = d.verif_parts();
    assert!(r.is_ok() == !fail_end);
    assert!(sink_is(sink, b"a<b"), "[C01,C11] the held-back tail is emitted exactly once at end()");
    assert!(ctl.ends == 1);
    assert!(ctl.bail_outs == 0, "[C11] the end handler's error arrives after every byte is in the sink: no bail-out flush");
    assert!(sink.empty_chunks == if fail_end { 0 } else { 1 }, "[C12] one final empty chunk iff end() succeeded");
    assert!(!sink.data_after_empty);
    kani::cover!(fail_end && handler_flag);
    core::mem::forget(r1);
    core::mem::forget(r);
    core::mem::forget(ts);
}
