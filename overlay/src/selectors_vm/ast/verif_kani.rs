//! Kani harnesses: selector AST leaf semantics (C04, C15). Child module of `selectors_vm::ast`.
use super::*;

const W: i32 = 1024; // @thorough 4096

fn reference(step: i32, offset: i32, index: i32) -> bool {
    // ∃ n ≥ 0. step·n + offset = index, over mathematical integers (i64 is wide enough)
    let d = index as i64 - offset as i64;
    if step == 0 {
        d == 0
    } else {
        let s = step as i64;
        d % s == 0 && d / s >= 0
    }
}

/// a value within W of one of the anchors 0, i32::MIN, i32::MAX
fn near_anchor() -> i32 {
    let k: u8 = kani::any();
    let delta: i32 = kani::any();
    kani::assume(delta >= 0 && delta <= W);
    match k % 4 {
        0 => delta,
        1 => -delta,
        2 => i32::MIN + delta,
        _ => i32::MAX - delta,
    }
}

/// C04: `NthChild::has_index(i)` ⇔ ∃ n ≥ 0. step·n + offset = i. A fully symbolic i32³ query needs a
/// 64-bit symbolic divider and does not finish in CBMC (> 600 s), so the space is cut into windows:
/// here every operand is within W of 0 (all sign combinations).
// @verif props=C04,C15 fns=NthChild::has_index
#[kani::proof]
fn c04_nth_child_has_index_small_window() {
    let step: i32 = kani::any();
    let offset: i32 = kani::any();
    let index: i32 = kani::any();
    kani::assume(step >= -W && step <= W && offset >= -W && offset <= W && index >= 1 && index <= W);
    let got = NthChild::new(step, offset).has_index(index);
    assert!(got == reference(step, offset, index));
    kani::cover!(got && step > 1 && offset < 0);
    kani::cover!(got && step < -1);
    kani::cover!(!got && step < 0);
}

/// ... and here offset and index are within W of 0, i32::MIN or i32::MAX (where `index - offset`
/// leaves the i32 range) with a step within W of 0: this window contains the overflow that F2 fixed.
// @verif props=C04,C15 fns=NthChild::has_index quick=C04
#[kani::proof]
fn c04_nth_child_has_index_extreme_offsets() {
    let step: i32 = kani::any();
    kani::assume(step >= -W && step <= W);
    let offset = near_anchor();
    let index = near_anchor();
    kani::assume(index >= 1);
    let got = NthChild::new(step, offset).has_index(index);
    assert!(got == reference(step, offset, index));
    kani::cover!(got && offset < -W && index > 0 && step > 1);
    kani::cover!(!got && offset > W);
}

/// ... and extreme steps (within W of i32::MIN / i32::MAX) with operands near the anchors.
// @verif props=C04,C15 fns=NthChild::has_index
#[kani::proof]
fn c04_nth_child_has_index_extreme_steps() {
    let step = near_anchor();
    kani::assume(step > W || step < -W);
    let offset = near_anchor();
    let index = near_anchor();
    kani::assume(index >= 1);
    let got = NthChild::new(step, offset).has_index(index);
    assert!(got == reference(step, offset, index));
    kani::cover!(got && index != offset);
    kani::cover!(got && index == offset);
}
