//! Kani harnesses: selector AST leaf semantics (C04, C15). Child module of `selectors_vm::ast`.
use super::*;

/// C04: `NthChild::has_index(i)` ⇔ ∃ n ≥ 0. step·n + offset = i, over the full i32³ space
/// (index ≥ 1, as produced by the child counters). Reference computed in i64.
// @verif props=C04,C15 fns=NthChild::has_index
#[kani::proof]
fn c04_nth_child_has_index_matches_an_plus_b() {
    let step: i32 = kani::any();
    let offset: i32 = kani::any();
    let index: i32 = kani::any();
    kani::assume(index >= 1);
    let got = NthChild::new(step, offset).has_index(index);
    let d = index as i64 - offset as i64;
    let want = if step == 0 {
        d == 0
    } else {
        let s = step as i64;
        d % s == 0 && d / s >= 0
    };
    assert!(got == want);
    kani::cover!(got && step > 1 && offset < 0);
    kani::cover!(!got && step < 0);
}
