//! Kani harnesses: void elements and stack directives (C16 can_have_content, C04 "closed immediately
//! if void", C15). Child module of `selectors_vm::stack`.
// @requires src/html/verif_kani.rs
use super::*;
use crate::html::LocalNameHash;

fn h(s: &str) -> LocalNameHash {
    LocalNameHash::from(s)
}

/// For EVERY 64-bit tag-name hash: is_void_element ⇔ the name is in the WHATWG void-element list
/// (area base br col embed hr img input link meta source track wbr) or one of the four legacy void
/// names the code documents (basefont bgsound keygen param). Reference hashes computed from the names.
// @verif props=C16,C04,C15 fns=is_void_element
#[kani::proof]
#[kani::unwind(12)]
fn c16_void_elements_for_every_hash() {
    let t = crate::html::verif_kani::full_hash();
    kani::assume(!t.is_empty());
    let esi: bool = kani::any();
    let got = is_void_element(&LocalName::Hash(t), esi);
    let want = t == h("area") || t == h("base") || t == h("br") || t == h("col") || t == h("embed") || t == h("hr")
        || t == h("img") || t == h("input") || t == h("link") || t == h("meta") || t == h("source") || t == h("track")
        || t == h("wbr") || t == h("basefont") || t == h("bgsound") || t == h("keygen") || t == h("param");
    assert!(got == want);
    kani::cover!(got && t == h("wbr"));
    kani::cover!(!got);
}

struct NoData(DenseHashSet);
impl ElementData for NoData {
    fn matched_ids_mut(&mut self) -> &mut DenseHashSet {
        &mut self.0
    }
    fn new() -> Self {
        NoData(DenseHashSet::new())
    }
}

/// Stack directive: in the HTML namespace an element is closed immediately iff it is void, otherwise
/// pushed; in SVG/MathML the void list does NOT apply (closed only by self-closing syntax) — for
/// every tag-name hash and every namespace. (Foreign elements named like HTML void elements, e.g.
/// <svg><link>…</link>, do have content.)
// @verif props=C16,C04,C05,C15 fns=Stack::get_stack_directive,is_void_element
#[kani::proof]
#[kani::unwind(12)]
fn c16_stack_directive_for_every_hash_and_namespace() {
    let t = crate::html::verif_kani::full_hash();
    kani::assume(!t.is_empty());
    let esi: bool = kani::any();
    let k: u8 = kani::any();
    let ns = match k % 3 {
        0 => Namespace::Html,
        1 => Namespace::Svg,
        _ => Namespace::MathML,
    };
    let item = StackItem::<NoData>::new(LocalName::Hash(t));
    let d = Stack::<NoData>::get_stack_directive(&item, ns, esi);
    let void = is_void_element(&LocalName::Hash(t), esi);
    match d {
        StackDirective::PopImmediately => assert!(ns == Namespace::Html && void),
        StackDirective::Push => assert!(ns == Namespace::Html && !void),
        StackDirective::PushIfNotSelfClosing => assert!(ns != Namespace::Html),
    }
    kani::cover!(ns == Namespace::Svg && void);
    kani::cover!(ns == Namespace::Html && void);
    core::mem::forget(item);
}
