//! Kani harnesses: the per-name sibling counters behind :nth-of-type (`TypedChildCounterMap`, C04 ":nth-child/
//! :nth-of-type count element siblings" on "the tree that explicit tags induce": closing an ancestor discards the
//! counters of every level inside it). Child module of `selectors_vm::stack`.
//!
//! Shape: ONE operation (a new child of any of three names at the current level; closing down to any shallower
//! level) from EVERY state of depth D that represents a reference tree path — per level and name, how many
//! element children of that name the element open at that level has had — then the post-state must again be
//! the representation of the reference post-state, and `get` must answer the reference count. `new()` is the
//! empty representation, so by induction the statements hold after any history of open-element depth ≤ D
//! (quick 2, thorough 3). Which levels carry a counter (the *shape*) is concrete per harness — it decides the
//! length of heap-backed lists, and symbolic lengths make CBMC run out of memory — the counts are symbolic
//! (full i32 range below i32::MAX). Names are the hashes of "a", "b", "cde"; the map only uses Eq/Hash of
//! names, whose agreement for arbitrary names is `c04_local_name_*`. `hashbrown` is the /verif/shims model
//! (linear list with stored hashes), see DESIGN §8.
//!
//! Not reached (measured, kept as notes/probe_c04_stack_step_harness.rs.txt): the same step at `Stack` level
//! (`push_item`, `pop_up_to`, open-name counts, active hereditary jumps): > 1 M program steps and solver
//! out-of-memory at 14 GB already at depth 0 (`LimitedVec<StackItem>` drain/retain plus heap-stored `LocalName`
//! variants that CBMC cannot keep concrete).
use super::*;
use crate::html::LocalNameHash;

const NAMES: usize = 3;
const MAXD: usize = 3;

/// Reference model: the path of open elements with, per level, how many element children (total and per
/// name) the element open at that level has had so far. Level 0 is the document root.
#[derive(Clone, Copy)]
struct Ref {
    depth: usize,
    /// name index of the open element at depth i (i < depth)
    frame: [usize; MAXD + 1],
    /// hereditary-jump ranges carried by the open element at depth i (bit 0: 0..1, bit 1: 1..2)
    hj: [u8; MAXD + 1],
    total: [i32; MAXD + 2],
    per: [[i32; NAMES]; MAXD + 2],
}

/// `shape[n]` bit l set ⇔ the element open at level l has had a child named n (concrete: it decides the
/// lengths of heap-backed lists, which must not be symbolic); the counts themselves are symbolic.
fn any_ref_shaped(depth: usize, shape: [u8; NAMES]) -> Ref {
    let mut r = Ref { depth, frame: [0; MAXD + 1], hj: [0; MAXD + 1], total: [0; MAXD + 2], per: [[0; NAMES]; MAXD + 2] };
    let mut i = 0;
    while i <= depth {
        let t: i32 = kani::any();
        kani::assume(t >= 0 && t < i32::MAX);
        r.total[i] = t;
        let mut sum: i64 = 0;
        let mut n = 0;
        while n < NAMES {
            if shape[n] & (1 << i) != 0 {
                let p: i32 = kani::any();
                kani::assume(p >= 1 && p <= t);
                r.per[i][n] = p;
                sum += p as i64;
            }
            n += 1;
        }
        kani::assume(sum <= t as i64);
        i += 1;
    }
    r
}

/// The typed (:nth-of-type) counters that represent `r`: per name, one counter per level that has had a child of
/// that name, deepest level in `current`.
fn build_map_shaped(map: &mut TypedChildCounterMap, r: &Ref, nm: &[LocalNameHash; NAMES], shape: Option<[u8; NAMES]>) {
    let mut n = 0;
    while n < NAMES {
        let mut list: Option<CounterList> = None;
        let mut l = 0;
        while l <= r.depth {
            let present = match shape {
                Some(sh) => sh[n] & (1 << l) != 0,
                None => r.per[l][n] > 0,
            };
            if present {
                let item = CounterItem { counter: ChildCounter { cumulative: r.per[l][n] }, index: l };
                list = Some(match list {
                    None => CounterList { items: Vec::new(), current: item },
                    Some(mut cl) => {
                        let old = core::mem::replace(&mut cl.current, item);
                        cl.items.push(old);
                        cl
                    }
                });
            }
            l += 1;
        }
        if let Some(cl) = list {
            map.0.insert(LocalName::Hash(nm[n]), cl);
        }
        n += 1;
    }
}

/// The map represents `r` — checked for ONE arbitrary name and ONE arbitrary level chosen by the solver (so for
/// every name and level), which keeps the formula a third of the size of a loop over all of them.
fn assert_map_represents(map: &TypedChildCounterMap, r: &Ref, nm: &[LocalNameHash; NAMES]) {
    let n: usize = kani::any();
    kani::assume(n < NAMES);
    let lv: usize = kani::any();
    kani::assume(lv <= r.depth);
    let mut levels = 0;
    let mut l = 0;
    while l <= r.depth {
        if r.per[l][n] > 0 {
            levels += 1;
        }
        l += 1;
    }
    let key = LocalName::Hash(nm[n]);
    match map.0.get(&key) {
        None => assert!(levels == 0, "[C04] :nth-of-type counter missing for a name that has siblings"),
        Some(cl) => {
            let len = cl.items.len();
            assert!(levels >= 1 && len + 1 == levels, "[C04] one :nth-of-type counter per level with such a child, none for closed levels or absent names");
            // (only concrete indexes into the heap-backed list: a symbolic index makes CBMC's array
            // post-processing run out of memory)
            let mut found: Option<i32> = None;
            let mut hits = 0;
            let mut j = 0;
            while j < MAXD + 1 {
                if j < len {
                    if cl.items[j].index == lv {
                        found = Some(cl.items[j].counter.cumulative);
                        hits += 1;
                    }
                    // deepest level last: `current` is the one consulted for the element being matched
                    assert!(cl.items[j].index < cl.current.index, "[C04] the current :nth-of-type counter is the deepest one");
                }
                j += 1;
            }
            if cl.current.index == lv {
                found = Some(cl.current.counter.cumulative);
                hits += 1;
            }
            if r.per[lv][n] > 0 {
                assert!(hits == 1 && found == Some(r.per[lv][n]), "[C04] :nth-of-type counter value and level");
            } else {
                assert!(hits == 0, "[C04] no :nth-of-type counter for a level without such a child");
            }
            assert!(cl.current.index <= r.depth, "[C04] no :nth-of-type counter for a closed level");
        }
    }
}

fn concrete_names() -> [LocalNameHash; NAMES] {
    [LocalNameHash::from("a"), LocalNameHash::from("b"), LocalNameHash::from("cde")]
}

/// One operation of the typed counter map from a represented state of depth D with a CONCRETE shape and
/// SYMBOLIC counts: a new child of name `n` at the current level (op < NAMES), or closing down to level
/// `op - NAMES`. Names are the concrete hashes of "a", "b", "cde" (the map only uses Eq/Hash of names, whose
/// agreement for arbitrary names is `c04_local_name_*`).
fn typed_case(depth: usize, shape: [u8; NAMES], op: usize) {
    let nm = concrete_names();
    let r = any_ref_shaped(depth, shape);
    let mut map = TypedChildCounterMap::new();
    build_map_shaped(&mut map, &r, &nm, Some(shape));
    let mut r2 = r;
    if op < NAMES {
        let n = op;
        let name = LocalName::Hash(nm[n]);
        map.add_child(&name, depth);
        r2.per[depth][n] += 1;
        match map.get(&name, depth) {
            Some(c) => assert!(c.cumulative == r2.per[depth][n], "[C04] :nth-of-type index = number of same-name element children of the parent so far"),
            None => assert!(false, "[C04] :nth-of-type index available for the element being matched"),
        }
    } else {
        let t = op - NAMES;
        map.pop_to(t);
        r2.depth = t;
        let mut l = t + 1;
        while l <= depth {
            r2.per[l] = [0; NAMES];
            l += 1;
        }
        let mut n = 0;
        while n < NAMES {
            match map.get(&LocalName::Hash(nm[n]), t) {
                Some(c) => assert!(r.per[t][n] > 0 && c.cumulative == r.per[t][n], "[C04] :nth-of-type counters of the level that stays open are kept"),
                None => assert!(r.per[t][n] == 0, "[C04] closing inner levels does not lose the counter of the level that stays open"),
            }
            n += 1;
        }
    }
    assert_map_represents(&map, &r2, &nm);
    core::mem::forget(map);
}

/// One concrete shape (name "a": `sa`, name "b": `sb`, "cde" fresh), every operation.
fn typed_step(depth: usize, sa: u8, sb: u8) {
    let pick_op: usize = kani::any();
    kani::assume(pick_op < NAMES + depth + 1);
    let mut op = 0;
    while op < NAMES + depth + 1 {
        if pick_op == op {
            typed_case(depth, [sa, sb, 0], op);
        }
        op += 1;
    }
    kani::cover!(pick_op == NAMES);
    kani::cover!(pick_op == 2);
}

/// :nth-of-type counters: one operation (a new child of any of three names, or closing down to any level) from
/// every represented state of depth D whose shape is (a: every subset of levels) x (b: absent | present at every
/// level), counts symbolic. Generated list; depth 3 is thorough-only.
// @verif props=C04,C15 quick=C04 fns=TypedChildCounterMap::add_child,TypedChildCounterMap::pop_to,TypedChildCounterMap::get
#[kani::proof]
#[kani::unwind(8)]
fn c04_typed_counters_d1_a0_b0() {
    typed_step(1, 0, 0);
}

// @verif props=C04,C15 quick=C04 fns=TypedChildCounterMap::add_child,TypedChildCounterMap::pop_to,TypedChildCounterMap::get
#[kani::proof]
#[kani::unwind(8)]
fn c04_typed_counters_d1_a0_b3() {
    typed_step(1, 0, 3);
}

// @verif props=C04,C15 quick=C04 fns=TypedChildCounterMap::add_child,TypedChildCounterMap::pop_to,TypedChildCounterMap::get
#[kani::proof]
#[kani::unwind(8)]
fn c04_typed_counters_d1_a1_b0() {
    typed_step(1, 1, 0);
}

// @verif props=C04,C15 quick=C04 fns=TypedChildCounterMap::add_child,TypedChildCounterMap::pop_to,TypedChildCounterMap::get
#[kani::proof]
#[kani::unwind(8)]
fn c04_typed_counters_d1_a1_b3() {
    typed_step(1, 1, 3);
}

// @verif props=C04,C15 quick=C04 fns=TypedChildCounterMap::add_child,TypedChildCounterMap::pop_to,TypedChildCounterMap::get
#[kani::proof]
#[kani::unwind(8)]
fn c04_typed_counters_d1_a2_b0() {
    typed_step(1, 2, 0);
}

// @verif props=C04,C15 quick=C04 fns=TypedChildCounterMap::add_child,TypedChildCounterMap::pop_to,TypedChildCounterMap::get
#[kani::proof]
#[kani::unwind(8)]
fn c04_typed_counters_d1_a2_b3() {
    typed_step(1, 2, 3);
}

// @verif props=C04,C15 quick=C04 fns=TypedChildCounterMap::add_child,TypedChildCounterMap::pop_to,TypedChildCounterMap::get
#[kani::proof]
#[kani::unwind(8)]
fn c04_typed_counters_d1_a3_b0() {
    typed_step(1, 3, 0);
}

// @verif props=C04,C15 quick=C04 fns=TypedChildCounterMap::add_child,TypedChildCounterMap::pop_to,TypedChildCounterMap::get
#[kani::proof]
#[kani::unwind(8)]
fn c04_typed_counters_d1_a3_b3() {
    typed_step(1, 3, 3);
}

// @verif props=C04,C15 quick=NONE fns=TypedChildCounterMap::add_child,TypedChildCounterMap::pop_to,TypedChildCounterMap::get
#[kani::proof]
#[kani::unwind(8)]
fn c04_typed_counters_d2_a0_b0() {
    typed_step(2, 0, 0);
}

// @verif props=C04,C15 quick=NONE fns=TypedChildCounterMap::add_child,TypedChildCounterMap::pop_to,TypedChildCounterMap::get
#[kani::proof]
#[kani::unwind(8)]
fn c04_typed_counters_d2_a0_b7() {
    typed_step(2, 0, 7);
}

// @verif props=C04,C15 quick=NONE fns=TypedChildCounterMap::add_child,TypedChildCounterMap::pop_to,TypedChildCounterMap::get
#[kani::proof]
#[kani::unwind(8)]
fn c04_typed_counters_d2_a1_b0() {
    typed_step(2, 1, 0);
}

// @verif props=C04,C15 quick=NONE fns=TypedChildCounterMap::add_child,TypedChildCounterMap::pop_to,TypedChildCounterMap::get
#[kani::proof]
#[kani::unwind(8)]
fn c04_typed_counters_d2_a1_b7() {
    typed_step(2, 1, 7);
}

// @verif props=C04,C15 quick=NONE fns=TypedChildCounterMap::add_child,TypedChildCounterMap::pop_to,TypedChildCounterMap::get
#[kani::proof]
#[kani::unwind(8)]
fn c04_typed_counters_d2_a2_b0() {
    typed_step(2, 2, 0);
}

// @verif props=C04,C15 quick=NONE fns=TypedChildCounterMap::add_child,TypedChildCounterMap::pop_to,TypedChildCounterMap::get
#[kani::proof]
#[kani::unwind(8)]
fn c04_typed_counters_d2_a2_b7() {
    typed_step(2, 2, 7);
}

// @verif props=C04,C15 quick=NONE fns=TypedChildCounterMap::add_child,TypedChildCounterMap::pop_to,TypedChildCounterMap::get
#[kani::proof]
#[kani::unwind(8)]
fn c04_typed_counters_d2_a3_b0() {
    typed_step(2, 3, 0);
}

// @verif props=C04,C15 quick=NONE fns=TypedChildCounterMap::add_child,TypedChildCounterMap::pop_to,TypedChildCounterMap::get
#[kani::proof]
#[kani::unwind(8)]
fn c04_typed_counters_d2_a3_b7() {
    typed_step(2, 3, 7);
}

// @verif props=C04,C15 quick=NONE fns=TypedChildCounterMap::add_child,TypedChildCounterMap::pop_to,TypedChildCounterMap::get
#[kani::proof]
#[kani::unwind(8)]
fn c04_typed_counters_d2_a4_b0() {
    typed_step(2, 4, 0);
}

// @verif props=C04,C15 quick=NONE fns=TypedChildCounterMap::add_child,TypedChildCounterMap::pop_to,TypedChildCounterMap::get
#[kani::proof]
#[kani::unwind(8)]
fn c04_typed_counters_d2_a4_b7() {
    typed_step(2, 4, 7);
}

// @verif props=C04,C15 quick=C04 fns=TypedChildCounterMap::add_child,TypedChildCounterMap::pop_to,TypedChildCounterMap::get
#[kani::proof]
#[kani::unwind(8)]
fn c04_typed_counters_d2_a5_b0() {
    typed_step(2, 5, 0);
}

// @verif props=C04,C15 quick=C04 fns=TypedChildCounterMap::add_child,TypedChildCounterMap::pop_to,TypedChildCounterMap::get
#[kani::proof]
#[kani::unwind(8)]
fn c04_typed_counters_d2_a5_b7() {
    typed_step(2, 5, 7);
}

// @verif props=C04,C15 quick=C04 fns=TypedChildCounterMap::add_child,TypedChildCounterMap::pop_to,TypedChildCounterMap::get
#[kani::proof]
#[kani::unwind(8)]
fn c04_typed_counters_d2_a6_b0() {
    typed_step(2, 6, 0);
}

// @verif props=C04,C15 quick=C04 fns=TypedChildCounterMap::add_child,TypedChildCounterMap::pop_to,TypedChildCounterMap::get
#[kani::proof]
#[kani::unwind(8)]
fn c04_typed_counters_d2_a6_b7() {
    typed_step(2, 6, 7);
}

// @verif props=C04,C15 quick=C04 fns=TypedChildCounterMap::add_child,TypedChildCounterMap::pop_to,TypedChildCounterMap::get
#[kani::proof]
#[kani::unwind(8)]
fn c04_typed_counters_d2_a7_b0() {
    typed_step(2, 7, 0);
}

// @verif props=C04,C15 quick=C04 fns=TypedChildCounterMap::add_child,TypedChildCounterMap::pop_to,TypedChildCounterMap::get
#[kani::proof]
#[kani::unwind(8)]
fn c04_typed_counters_d2_a7_b7() {
    typed_step(2, 7, 7);
}

// @verif props=C04,C15 quick=NONE fns=TypedChildCounterMap::add_child,TypedChildCounterMap::pop_to,TypedChildCounterMap::get
#[kani::proof]
#[kani::unwind(8)]
fn c04_typed_counters_d3_a0_b0() {
    typed_step(3, 0, 0);
}

// @verif props=C04,C15 quick=NONE fns=TypedChildCounterMap::add_child,TypedChildCounterMap::pop_to,TypedChildCounterMap::get
#[kani::proof]
#[kani::unwind(8)]
fn c04_typed_counters_d3_a0_b15() {
    typed_step(3, 0, 15);
}

// @verif props=C04,C15 quick=NONE fns=TypedChildCounterMap::add_child,TypedChildCounterMap::pop_to,TypedChildCounterMap::get
#[kani::proof]
#[kani::unwind(8)]
fn c04_typed_counters_d3_a1_b0() {
    typed_step(3, 1, 0);
}

// @verif props=C04,C15 quick=NONE fns=TypedChildCounterMap::add_child,TypedChildCounterMap::pop_to,TypedChildCounterMap::get
#[kani::proof]
#[kani::unwind(8)]
fn c04_typed_counters_d3_a1_b15() {
    typed_step(3, 1, 15);
}

// @verif props=C04,C15 quick=NONE fns=TypedChildCounterMap::add_child,TypedChildCounterMap::pop_to,TypedChildCounterMap::get
#[kani::proof]
#[kani::unwind(8)]
fn c04_typed_counters_d3_a2_b0() {
    typed_step(3, 2, 0);
}

// @verif props=C04,C15 quick=NONE fns=TypedChildCounterMap::add_child,TypedChildCounterMap::pop_to,TypedChildCounterMap::get
#[kani::proof]
#[kani::unwind(8)]
fn c04_typed_counters_d3_a2_b15() {
    typed_step(3, 2, 15);
}

// @verif props=C04,C15 quick=NONE fns=TypedChildCounterMap::add_child,TypedChildCounterMap::pop_to,TypedChildCounterMap::get
#[kani::proof]
#[kani::unwind(8)]
fn c04_typed_counters_d3_a3_b0() {
    typed_step(3, 3, 0);
}

// @verif props=C04,C15 quick=NONE fns=TypedChildCounterMap::add_child,TypedChildCounterMap::pop_to,TypedChildCounterMap::get
#[kani::proof]
#[kani::unwind(8)]
fn c04_typed_counters_d3_a3_b15() {
    typed_step(3, 3, 15);
}

// @verif props=C04,C15 quick=NONE fns=TypedChildCounterMap::add_child,TypedChildCounterMap::pop_to,TypedChildCounterMap::get
#[kani::proof]
#[kani::unwind(8)]
fn c04_typed_counters_d3_a4_b0() {
    typed_step(3, 4, 0);
}

// @verif props=C04,C15 quick=NONE fns=TypedChildCounterMap::add_child,TypedChildCounterMap::pop_to,TypedChildCounterMap::get
#[kani::proof]
#[kani::unwind(8)]
fn c04_typed_counters_d3_a4_b15() {
    typed_step(3, 4, 15);
}

// @verif props=C04,C15 quick=NONE fns=TypedChildCounterMap::add_child,TypedChildCounterMap::pop_to,TypedChildCounterMap::get
#[kani::proof]
#[kani::unwind(8)]
fn c04_typed_counters_d3_a5_b0() {
    typed_step(3, 5, 0);
}

// @verif props=C04,C15 quick=NONE fns=TypedChildCounterMap::add_child,TypedChildCounterMap::pop_to,TypedChildCounterMap::get
#[kani::proof]
#[kani::unwind(8)]
fn c04_typed_counters_d3_a5_b15() {
    typed_step(3, 5, 15);
}

// @verif props=C04,C15 quick=NONE fns=TypedChildCounterMap::add_child,TypedChildCounterMap::pop_to,TypedChildCounterMap::get
#[kani::proof]
#[kani::unwind(8)]
fn c04_typed_counters_d3_a6_b0() {
    typed_step(3, 6, 0);
}

// @verif props=C04,C15 quick=NONE fns=TypedChildCounterMap::add_child,TypedChildCounterMap::pop_to,TypedChildCounterMap::get
#[kani::proof]
#[kani::unwind(8)]
fn c04_typed_counters_d3_a6_b15() {
    typed_step(3, 6, 15);
}

// @verif props=C04,C15 quick=NONE fns=TypedChildCounterMap::add_child,TypedChildCounterMap::pop_to,TypedChildCounterMap::get
#[kani::proof]
#[kani::unwind(8)]
fn c04_typed_counters_d3_a7_b0() {
    typed_step(3, 7, 0);
}

// @verif props=C04,C15 quick=NONE fns=TypedChildCounterMap::add_child,TypedChildCounterMap::pop_to,TypedChildCounterMap::get
#[kani::proof]
#[kani::unwind(8)]
fn c04_typed_counters_d3_a7_b15() {
    typed_step(3, 7, 15);
}

// @verif props=C04,C15 quick=NONE fns=TypedChildCounterMap::add_child,TypedChildCounterMap::pop_to,TypedChildCounterMap::get
#[kani::proof]
#[kani::unwind(8)]
fn c04_typed_counters_d3_a8_b0() {
    typed_step(3, 8, 0);
}

// @verif props=C04,C15 quick=NONE fns=TypedChildCounterMap::add_child,TypedChildCounterMap::pop_to,TypedChildCounterMap::get
#[kani::proof]
#[kani::unwind(8)]
fn c04_typed_counters_d3_a8_b15() {
    typed_step(3, 8, 15);
}

// @verif props=C04,C15 quick=NONE fns=TypedChildCounterMap::add_child,TypedChildCounterMap::pop_to,TypedChildCounterMap::get
#[kani::proof]
#[kani::unwind(8)]
fn c04_typed_counters_d3_a9_b0() {
    typed_step(3, 9, 0);
}

// @verif props=C04,C15 quick=NONE fns=TypedChildCounterMap::add_child,TypedChildCounterMap::pop_to,TypedChildCounterMap::get
#[kani::proof]
#[kani::unwind(8)]
fn c04_typed_counters_d3_a9_b15() {
    typed_step(3, 9, 15);
}

// @verif props=C04,C15 quick=NONE fns=TypedChildCounterMap::add_child,TypedChildCounterMap::pop_to,TypedChildCounterMap::get
#[kani::proof]
#[kani::unwind(8)]
fn c04_typed_counters_d3_a10_b0() {
    typed_step(3, 10, 0);
}

// @verif props=C04,C15 quick=NONE fns=TypedChildCounterMap::add_child,TypedChildCounterMap::pop_to,TypedChildCounterMap::get
#[kani::proof]
#[kani::unwind(8)]
fn c04_typed_counters_d3_a10_b15() {
    typed_step(3, 10, 15);
}

// @verif props=C04,C15 quick=NONE fns=TypedChildCounterMap::add_child,TypedChildCounterMap::pop_to,TypedChildCounterMap::get
#[kani::proof]
#[kani::unwind(8)]
fn c04_typed_counters_d3_a11_b0() {
    typed_step(3, 11, 0);
}

// @verif props=C04,C15 quick=NONE fns=TypedChildCounterMap::add_child,TypedChildCounterMap::pop_to,TypedChildCounterMap::get
#[kani::proof]
#[kani::unwind(8)]
fn c04_typed_counters_d3_a11_b15() {
    typed_step(3, 11, 15);
}

// @verif props=C04,C15 quick=NONE fns=TypedChildCounterMap::add_child,TypedChildCounterMap::pop_to,TypedChildCounterMap::get
#[kani::proof]
#[kani::unwind(8)]
fn c04_typed_counters_d3_a12_b0() {
    typed_step(3, 12, 0);
}

// @verif props=C04,C15 quick=NONE fns=TypedChildCounterMap::add_child,TypedChildCounterMap::pop_to,TypedChildCounterMap::get
#[kani::proof]
#[kani::unwind(8)]
fn c04_typed_counters_d3_a12_b15() {
    typed_step(3, 12, 15);
}

// @verif props=C04,C15 quick=NONE fns=TypedChildCounterMap::add_child,TypedChildCounterMap::pop_to,TypedChildCounterMap::get
#[kani::proof]
#[kani::unwind(8)]
fn c04_typed_counters_d3_a13_b0() {
    typed_step(3, 13, 0);
}

// @verif props=C04,C15 quick=NONE fns=TypedChildCounterMap::add_child,TypedChildCounterMap::pop_to,TypedChildCounterMap::get
#[kani::proof]
#[kani::unwind(8)]
fn c04_typed_counters_d3_a13_b15() {
    typed_step(3, 13, 15);
}

// @verif props=C04,C15 quick=NONE fns=TypedChildCounterMap::add_child,TypedChildCounterMap::pop_to,TypedChildCounterMap::get
#[kani::proof]
#[kani::unwind(8)]
fn c04_typed_counters_d3_a14_b0() {
    typed_step(3, 14, 0);
}

// @verif props=C04,C15 quick=NONE fns=TypedChildCounterMap::add_child,TypedChildCounterMap::pop_to,TypedChildCounterMap::get
#[kani::proof]
#[kani::unwind(8)]
fn c04_typed_counters_d3_a14_b15() {
    typed_step(3, 14, 15);
}

// @verif props=C04,C15 quick=NONE fns=TypedChildCounterMap::add_child,TypedChildCounterMap::pop_to,TypedChildCounterMap::get
#[kani::proof]
#[kani::unwind(8)]
fn c04_typed_counters_d3_a15_b0() {
    typed_step(3, 15, 0);
}

// @verif props=C04,C15 quick=NONE fns=TypedChildCounterMap::add_child,TypedChildCounterMap::pop_to,TypedChildCounterMap::get
#[kani::proof]
#[kani::unwind(8)]
fn c04_typed_counters_d3_a15_b15() {
    typed_step(3, 15, 15);
}

