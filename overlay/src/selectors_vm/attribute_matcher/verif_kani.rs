//! Kani harnesses: attribute operators vs CSS Selectors semantics (C04, C15, C16 lookup).
//! Child module of `selectors_vm::attribute_matcher`.
use super::*;
use crate::base::Range;

const VN: usize = 3; // @thorough 4
const ON: usize = 2; // @thorough 3

fn lc(b: u8) -> u8 {
    if b >= b'A' && b <= b'Z' { b + 32 } else { b }
}

fn eq_case(a: &[u8], b: &[u8], ci: bool) -> bool {
    if a.len() != b.len() {
        return false;
    }
    let mut i = 0;
    while i < a.len() {
        if ci {
            if lc(a[i]) != lc(b[i]) {
                return false;
            }
        } else if a[i] != b[i] {
            return false;
        }
        i += 1;
    }
    true
}

fn is_ws(b: u8) -> bool {
    b == b' ' || b == b'\t' || b == b'\n' || b == b'\r' || b == 0x0c
}

fn any_case() -> ParsedCaseSensitivity {
    let k: u8 = kani::any();
    match k & 3 {
        0 => ParsedCaseSensitivity::CaseSensitive,
        1 => ParsedCaseSensitivity::ExplicitCaseSensitive,
        2 => ParsedCaseSensitivity::AsciiCaseInsensitive,
        _ => ParsedCaseSensitivity::AsciiCaseInsensitiveIfInHtmlElementInHtmlDocument,
    }
}

fn effective_ci(c: ParsedCaseSensitivity, html: bool) -> bool {
    match c {
        ParsedCaseSensitivity::AsciiCaseInsensitive => true,
        ParsedCaseSensitivity::AsciiCaseInsensitiveIfInHtmlElementInHtmlDocument => html,
        _ => false,
    }
}

struct Case {
    input: [u8; 1 + VN],
    vlen: usize,
    op: [u8; ON],
    olen: usize,
    opname: u8,
    html: bool,
    case: ParsedCaseSensitivity,
}

fn any_case_setup() -> Case {
    let c = Case {
        input: kani::any(),
        vlen: kani::any(),
        op: kani::any(),
        olen: kani::any(),
        opname: kani::any(),
        html: kani::any(),
        case: any_case(),
    };
    kani::assume(c.vlen <= VN && c.olen <= ON);
    // the compiler lower-cases the operand name
    kani::assume(!(c.opname >= b'A' && c.opname <= b'Z'));
    c
}

/// runs `f` on a matcher over one attribute `input[0..1]="input[1..1+vlen]"`; returns (result, present, ci)
fn with_matcher(c: &Case, f: impl Fn(&AttributeMatcher<'_>, &AttrExprOperands) -> bool) -> (bool, bool, bool) {
    let attrs: AttributeBuffer = vec![AttributeOutline {
        name: Range { start: 0, end: 1 },
        value: Range { start: 1, end: 1 + c.vlen },
        raw_range: Range { start: 0, end: 1 + c.vlen },
    }];
    let ns = if c.html { Namespace::Html } else { Namespace::Svg };
    let m = AttributeMatcher::new(Bytes::new(&c.input), &attrs, ns);
    let operands = AttrExprOperands {
        name: Box::from(&[c.opname][..]),
        value: Box::from(&c.op[..c.olen]),
        case_sensitivity: c.case,
    };
    let got = f(&m, &operands);
    let present = lc(c.input[0]) == c.opname;
    let ci = effective_ci(c.case, c.html);
    core::mem::forget(operands);
    core::mem::forget(attrs);
    (got, present, ci)
}

// @verif props=C04,C15 fns=AttributeMatcher::attr_eq
#[kani::proof]
#[kani::unwind(6)] // @thorough 7
fn c04_attr_eq() {
    let c = any_case_setup();
    let (got, present, ci) = with_matcher(&c, |m, o| m.attr_eq(o));
    let want = present && eq_case(&c.input[1..1 + c.vlen], &c.op[..c.olen], ci);
    assert!(got == want);
    kani::cover!(got && ci && c.olen == ON && c.input[1] != c.op[0]);
    kani::cover!(!got && present);
}

// [att~=val]: one of the whitespace-separated words is val; never matches for empty val or val with whitespace
// @verif props=C04,C15 fns=AttributeMatcher::matches_splitted_by_whitespace quick=C04
#[kani::proof]
#[kani::unwind(7)] // @thorough 8
fn c04_attr_includes() {
    let c = any_case_setup();
    let (got, present, ci) = with_matcher(&c, |m, o| m.matches_splitted_by_whitespace(o));
    let v = &c.input[1..1 + c.vlen];
    let o = &c.op[..c.olen];
    let mut op_has_ws = false;
    let mut i = 0;
    while i < o.len() {
        if is_ws(o[i]) {
            op_has_ws = true;
        }
        i += 1;
    }
    let mut found = false;
    if !o.is_empty() && !op_has_ws {
        // words of v
        let mut s = 0;
        while s <= v.len() {
            let mut e = s;
            while e < v.len() && !is_ws(v[e]) {
                e += 1;
            }
            if e > s && eq_case(&v[s..e], o, ci) {
                found = true;
            }
            s = e + 1;
        }
    }
    assert!(got == (present && found));
    kani::cover!(got && c.vlen == VN && c.olen == 1);
    kani::cover!(present && o.is_empty() && c.vlen == 0);
}

// [att|=val]: exactly val, or val immediately followed by '-'
// @verif props=C04,C15 fns=AttributeMatcher::has_dash_matching_attr
#[kani::proof]
#[kani::unwind(6)] // @thorough 7
fn c04_attr_dash_match() {
    let c = any_case_setup();
    let (got, present, ci) = with_matcher(&c, |m, o| m.has_dash_matching_attr(o));
    let v = &c.input[1..1 + c.vlen];
    let o = &c.op[..c.olen];
    let want = present
        && (eq_case(v, o, ci) || (v.len() > o.len() && v[o.len()] == b'-' && eq_case(&v[..o.len()], o, ci)));
    assert!(got == want);
    kani::cover!(got && c.vlen > c.olen && c.olen > 0);
}

// [att^=val]: begins with val; never matches for empty val
// @verif props=C04,C15 fns=AttributeMatcher::has_attr_with_prefix
#[kani::proof]
#[kani::unwind(6)] // @thorough 7
fn c04_attr_prefix() {
    let c = any_case_setup();
    let (got, present, ci) = with_matcher(&c, |m, o| m.has_attr_with_prefix(o));
    let v = &c.input[1..1 + c.vlen];
    let o = &c.op[..c.olen];
    let want = present && !o.is_empty() && v.len() >= o.len() && eq_case(&v[..o.len()], o, ci);
    assert!(got == want);
    kani::cover!(got && c.vlen > c.olen);
    kani::cover!(present && o.is_empty() && c.vlen > 0);
}

// [att$=val]: ends with val; never matches for empty val
// @verif props=C04,C15 fns=AttributeMatcher::has_attr_with_suffix
#[kani::proof]
#[kani::unwind(6)] // @thorough 7
fn c04_attr_suffix() {
    let c = any_case_setup();
    let (got, present, ci) = with_matcher(&c, |m, o| m.has_attr_with_suffix(o));
    let v = &c.input[1..1 + c.vlen];
    let o = &c.op[..c.olen];
    let want = present && !o.is_empty() && v.len() >= o.len() && eq_case(&v[v.len() - o.len()..], o, ci);
    assert!(got == want);
    kani::cover!(got && c.vlen > c.olen);
    kani::cover!(present && o.is_empty() && c.vlen > 0);
}

// [att*=val]: contains val; never matches for empty val
// @verif props=C04,C15 fns=AttributeMatcher::has_attr_with_substring quick=C04
#[kani::proof]
#[kani::unwind(7)] // @thorough 8
fn c04_attr_substring() {
    let c = any_case_setup();
    let (got, present, ci) = with_matcher(&c, |m, o| m.has_attr_with_substring(o));
    let v = &c.input[1..1 + c.vlen];
    let o = &c.op[..c.olen];
    let mut found = false;
    if !o.is_empty() {
        let mut s = 0;
        while s + o.len() <= v.len() {
            if eq_case(&v[s..s + o.len()], o, ci) {
                found = true;
            }
            s += 1;
        }
    }
    assert!(got == (present && found));
    kani::cover!(got && c.vlen == VN && c.olen == ON && c.input[1] != c.op[0] && lc(c.input[1]) != lc(c.op[0]));
}

/// #id: exact (case-sensitive) equality with the id attribute's value; .class: one of the
/// whitespace-separated words of the class attribute; [att]: presence, name ASCII case-insensitive;
/// with duplicate attributes the first one wins.
// @verif props=C04,C15,C16 fns=AttributeMatcher::has_id,AttributeMatcher::has_class,AttributeMatcher::has_attribute,AttributeMatcher::find
#[kani::proof]
#[kani::unwind(8)]
fn c04_attr_id_class_exists_first_duplicate() {
    // buffer: "id" v0 v1 | "ID"/"Id"/.. w0 w1 ; two attributes whose names are 2 symbolic bytes each
    let input: [u8; 8] = kani::any();
    let l0: usize = kani::any();
    let l1: usize = kani::any();
    kani::assume(l0 <= 2 && l1 <= 2);
    let attrs: AttributeBuffer = vec![
        AttributeOutline { name: Range { start: 0, end: 2 }, value: Range { start: 2, end: 2 + l0 }, raw_range: Range { start: 0, end: 2 + l0 } },
        AttributeOutline { name: Range { start: 4, end: 6 }, value: Range { start: 6, end: 6 + l1 }, raw_range: Range { start: 4, end: 6 + l1 } },
    ];
    let m = AttributeMatcher::new(Bytes::new(&input), &attrs, Namespace::Html);
    let q: [u8; 2] = kani::any();
    let ql: usize = kani::any();
    kani::assume(ql <= 2);
    let q = &q[..ql];
    let is_id0 = lc(input[0]) == b'i' && lc(input[1]) == b'd';
    let is_id1 = lc(input[4]) == b'i' && lc(input[5]) == b'd';
    let want_id = if is_id0 {
        eq_case(&input[2..2 + l0], q, false)
    } else if is_id1 {
        eq_case(&input[6..6 + l1], q, false)
    } else {
        false
    };
    assert!(m.has_id(q) == want_id);
    // memoised second call gives the same answer
    assert!(m.has_id(q) == want_id);
    let name: [u8; 2] = kani::any();
    kani::assume(!(name[0] >= b'A' && name[0] <= b'Z') && !(name[1] >= b'A' && name[1] <= b'Z'));
    let want_has = (lc(input[0]) == name[0] && lc(input[1]) == name[1]) || (lc(input[4]) == name[0] && lc(input[5]) == name[1]);
    assert!(m.has_attribute(&name) == want_has);
    kani::cover!(want_id && !is_id0);
    kani::cover!(is_id0 && is_id1 && !want_id && eq_case(&input[6..6 + l1], q, false));
    kani::cover!(want_has && input[0] != name[0]);
    core::mem::forget(attrs);
}

// .class on a 5-byte class attribute named by concrete bytes
// @verif props=C04,C15 fns=AttributeMatcher::has_class quick=C04
#[kani::proof]
#[kani::unwind(8)]
fn c04_attr_class_words() {
    let mut input: [u8; 5 + VN] = kani::any();
    let case_bits: u8 = kani::any();
    let nm = b"class";
    let mut i = 0;
    while i < 5 {
        input[i] = if case_bits & (1 << i) != 0 { nm[i] - 32 } else { nm[i] };
        i += 1;
    }
    let vlen: usize = kani::any();
    kani::assume(vlen <= VN);
    let attrs: AttributeBuffer = vec![AttributeOutline {
        name: Range { start: 0, end: 5 },
        value: Range { start: 5, end: 5 + vlen },
        raw_range: Range { start: 0, end: 5 + vlen },
    }];
    let m = AttributeMatcher::new(Bytes::new(&input), &attrs, Namespace::Html);
    let q: [u8; ON] = kani::any();
    let ql: usize = kani::any();
    kani::assume(ql >= 1 && ql <= ON);
    let q = &q[..ql];
    // class names in selectors never contain whitespace (they are identifiers)
    let mut j = 0;
    while j < q.len() {
        kani::assume(!is_ws(q[j]));
        j += 1;
    }
    let v = &input[5..5 + vlen];
    let mut found = false;
    let mut s = 0;
    while s <= v.len() {
        let mut e = s;
        while e < v.len() && !is_ws(v[e]) {
            e += 1;
        }
        if e > s && eq_case(&v[s..e], q, false) {
            found = true;
        }
        s = e + 1;
    }
    assert!(m.has_class(q) == found);
    kani::cover!(found && vlen == VN && ql == 1 && is_ws(v[1]));
    core::mem::forget(attrs);
}
