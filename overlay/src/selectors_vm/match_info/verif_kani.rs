//! Kani harnesses: DenseHashSet vs a u64 bitset (C04, C05, C15). Child module of `selectors_vm::match_info`.
use super::*;

fn to_bits(s: &DenseHashSet) -> u64 {
    let mut bits = 0u64;
    let sl = s.slice();
    let mut i = 0;
    while i < sl.len() && i < 2 {
        bits |= (sl[i] as u64) << (32 * i);
        i += 1;
    }
    bits
}

/// insert agrees with a u64 bitset. The id is taken from a concrete list (a symbolic id makes the
/// cold `resize(int_idx * 2)` path allocate a symbolic size, which CBMC cannot handle: > 9 GB); the
/// pre-existing members are fully symbolic words, for the inline and the two-word heap representation.
// @verif props=C04,C05,C15 fns=DenseHashSet::insert,DenseHashSet::resize
#[kani::proof]
#[kani::unwind(8)]
fn c04_dense_hash_set_insert_matches_bitset() {
    let ids_inline = [0u32, 1, 7, 31];
    let ids_heap = [0u32, 31, 32, 33, 63];
    let v: u32 = kani::any();
    let w: u32 = kani::any();
    let mut k = 0;
    while k < ids_inline.len() {
        let a = ids_inline[k];
        let mut s = DenseHashSet::Inline(v);
        s.insert(a);
        assert!(to_bits(&s) == ((v as u64) | (1u64 << a)));
        core::mem::forget(s);
        k += 1;
    }
    let mut k = 0;
    while k < ids_heap.len() {
        let a = ids_heap[k];
        let mut s = DenseHashSet::Heap(Box::new([v, w]));
        s.insert(a);
        assert!(to_bits(&s) == ((v as u64) | ((w as u64) << 32) | (1u64 << a)));
        core::mem::forget(s);
        k += 1;
    }
    // growth from inline on the first id >= 32
    let mut s = DenseHashSet::Inline(v);
    s.insert(32);
    assert!(to_bits(&s) == ((v as u64) | (1u64 << 32)));
    core::mem::forget(s);
    let mut s = DenseHashSet::Inline(v);
    s.insert(63);
    assert!(to_bits(&s) == ((v as u64) | (1u64 << 63)));
    kani::cover!(v == 0);
    core::mem::forget(s);
}

/// union agrees with bitwise or, for all four representation pairs (symbolic words).
// @verif props=C04,C05,C15 fns=DenseHashSet::union,DenseHashSet::resize
#[kani::proof]
#[kani::unwind(5)]
fn c04_dense_hash_set_union_matches_bitset() {
    let a0: u32 = kani::any();
    let a1: u32 = kani::any();
    let b0: u32 = kani::any();
    let b1: u32 = kani::any();
    // representation pairs are enumerated concretely (a symbolic representation makes the resize
    // allocation size symbolic)
    let mut case = 0;
    while case < 4 {
        let ah = case & 1 != 0;
        let bh = case & 2 != 0;
        let mut a = if ah { DenseHashSet::Heap(Box::new([a0, a1])) } else { DenseHashSet::Inline(a0) };
        let b = if bh { DenseHashSet::Heap(Box::new([b0, b1])) } else { DenseHashSet::Inline(b0) };
        let wa = if ah { (a0 as u64) | ((a1 as u64) << 32) } else { a0 as u64 };
        let wb = if bh { (b0 as u64) | ((b1 as u64) << 32) } else { b0 as u64 };
        a.union(&b);
        assert!(to_bits(&a) == (wa | wb));
        assert!(to_bits(&b) == wb);
        core::mem::forget(a);
        core::mem::forget(b);
        case += 1;
    }
    kani::cover!(b1 != 0 && a0 != 0);
}
/// iter yields exactly the members, ascending, each once (injected two-word set with <= 3 members).
// @verif props=C04,C05,C15 fns=DenseHashSet::iter quick=C04
#[kani::proof]
#[kani::unwind(6)]
fn c04_dense_hash_set_iter_yields_members_once() {
    let w0: u32 = kani::any();
    let w1: u32 = kani::any();
    kani::assume(w0.count_ones() + w1.count_ones() <= 3);
    let heap: bool = kani::any();
    let s = if heap { DenseHashSet::Heap(Box::new([w0, w1])) } else { DenseHashSet::Inline(w0) };
    let want = if heap { (w0 as u64) | ((w1 as u64) << 32) } else { w0 as u64 };
    let mut seen = 0u64;
    let mut last: i64 = -1;
    for id in s.iter() {
        assert!((id as i64) > last);
        last = id as i64;
        assert!(id < 64);
        seen |= 1u64 << id;
    }
    assert!(seen == want);
    kani::cover!(heap && w0 == 0 && w1.count_ones() == 2);
    kani::cover!(heap && w0 != 0 && w1 != 0);
    core::mem::forget(s);
}
