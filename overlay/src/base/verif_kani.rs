//! Kani harness: the case-insensitive comparison behind attribute lookup (C16 get_attribute /
//! has_attribute look names up ASCII case-insensitively, C15). Child module of `base`.
use super::*;

const N: usize = 3; // @thorough 4

/// eq_case_insensitive(mixed, lowercased) ⇔ same length and every byte of `mixed`, ASCII-lowercased,
/// equals the corresponding byte — for arbitrary bytes (only A–Z are folded; '[' and '{', '@' and '`',
/// '_' and DEL, control characters etc. stay distinct).
// @verif props=C16,C15 fns=eq_case_insensitive
#[kani::proof]
#[kani::unwind(6)] // @thorough 7
fn c16_name_lookup_comparison_folds_only_ascii_letters() {
    let a: [u8; N] = kani::any();
    let b: [u8; N] = kani::any();
    let la: usize = kani::any();
    let lb: usize = kani::any();
    kani::assume(la <= N && lb <= N);
    // documented precondition (debug-asserted by the function): the second argument is already lower-case
    let mut i = 0;
    while i < N {
        kani::assume(!(b[i] >= b'A' && b[i] <= b'Z'));
        i += 1;
    }
    let got = eq_case_insensitive(&a[..la], &b[..lb]);
    let mut want = la == lb;
    let mut i = 0;
    while i < la && i < lb {
        let c = a[i];
        let lc = if c >= b'A' && c <= b'Z' { c + 32 } else { c };
        if lc != b[i] {
            want = false;
        }
        i += 1;
    }
    assert!(got == want);
    kani::cover!(got && la == N && a[0] != b[0]);
    kani::cover!(!got && la == lb && la == 1 && (a[0] | 0x20) == b[0]);
}
