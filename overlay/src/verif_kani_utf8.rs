//! Verification model of `core::str::from_utf8` shared by the harnesses that stub it (C13, C11 text path).
//! Child module of the crate root. Checked against the real function by `c13_from_utf8_model_agrees_with_std`.
#![allow(dead_code)]

#[derive(PartialEq, Clone, Copy)]
pub(crate) enum St {
    Complete,
    Incomplete,
    Invalid,
}

pub(crate) fn is_cont(b: u8) -> bool {
    b & 0xC0 == 0x80
}

/// Reference UTF-8 scanner (Unicode Table 3-7): (length of the longest valid prefix, status of the rest)
pub(crate) fn scan(b: &[u8]) -> (usize, St) {
    let mut i = 0;
    while i < b.len() {
        let b0 = b[i];
        let (len, lo, hi) = match b0 {
            0x00..=0x7F => (1, 0, 0),
            0xC2..=0xDF => (2, 0x80, 0xBF),
            0xE0 => (3, 0xA0, 0xBF),
            0xE1..=0xEC | 0xEE..=0xEF => (3, 0x80, 0xBF),
            0xED => (3, 0x80, 0x9F),
            0xF0 => (4, 0x90, 0xBF),
            0xF1..=0xF3 => (4, 0x80, 0xBF),
            0xF4 => (4, 0x80, 0x8F),
            _ => return (i, St::Invalid),
        };
        let mut k = 1;
        while k < len {
            if i + k >= b.len() {
                return (i, St::Incomplete);
            }
            let c = b[i + k];
            let ok = if k == 1 { c >= lo && c <= hi } else { is_cont(c) };
            if !ok {
                return (i, St::Invalid);
            }
            k += 1;
        }
        i += len;
    }
    (i, St::Complete)
}

use core::sync::atomic::{AtomicUsize, Ordering};

/// `Utf8Error` values can only be made by the standard library and its fields are private, so the model keeps
/// the two facts the code under verification reads (`valid_up_to()`, `error_len().is_some()`) of the *most
/// recent* error in two statics, and `valid_up_to` / `error_len` are stubbed to read them. Sound for this code
/// because every error is inspected before the next `from_utf8` call (read: both call sites consume the error inside the `match`/`map_err` that received it).
pub(crate) static LAST_VALID: AtomicUsize = AtomicUsize::new(0);
pub(crate) static LAST_DEFINITE: AtomicUsize = AtomicUsize::new(0);

fn some_utf8_error() -> core::str::Utf8Error {
    // the real validator (through `from_utf8_mut`, which is not the stubbed function) on a concrete witness
    let mut b = [0xFFu8];
    match core::str::from_utf8_mut(&mut b) {
        Err(e) => e,
        Ok(_) => unreachable!(),
    }
}

/// Verification model of `core::str::from_utf8` (used through `#[kani::stub]`): the reference scanner above
/// decides; the `&str` on success comes from the standard library's own safe chunk iterator, and a disagreement
/// between the two is an assertion failure, not a pruned path. The model is compared with the real `from_utf8`
/// in `c13_from_utf8_model_agrees_with_std`.
pub(crate) fn model_from_utf8(v: &[u8]) -> Result<&str, core::str::Utf8Error> {
    let (valid, st) = scan(v);
    match st {
        St::Complete => match v.utf8_chunks().next() {
            None => Ok(""),
            Some(c) => {
                assert!(c.valid().len() == v.len(), "from_utf8 model: scanner and Utf8Chunks agree");
                Ok(c.valid())
            }
        },
        St::Incomplete | St::Invalid => {
            LAST_VALID.store(valid, Ordering::Relaxed);
            LAST_DEFINITE.store((st == St::Invalid) as usize, Ordering::Relaxed);
            Err(some_utf8_error())
        }
    }
}

pub(crate) fn model_valid_up_to(_e: &core::str::Utf8Error) -> usize {
    LAST_VALID.load(Ordering::Relaxed)
}

pub(crate) fn model_error_len(_e: &core::str::Utf8Error) -> Option<usize> {
    if LAST_DEFINITE.load(Ordering::Relaxed) == 1 {
        Some(1)
    } else {
        None
    }
}

