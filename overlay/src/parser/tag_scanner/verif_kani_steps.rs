//! Support code for the generated one-step harnesses over the TagScanner state machine (DESIGN §3,
//! C09, C06, C02). Child module of `parser::tag_scanner`. Harnesses are generated from /repo's DSL into
//! `verif_kani_steps_gen.rs` on every run.
// @requires src/parser/tree_builder_simulator/verif_kani.rs
#![allow(dead_code)]
use super::*;
use crate::parser::lexer::{LexemeSink, NonTagContentLexeme, TagLexeme};
use crate::parser::state_machine::{ActionError, ActionResult, StateMachine};
use crate::parser::{ParserContext, ParserOutputSink, TreeBuilderSimulator};

pub(crate) const TS: u16 = 1; // tag_start is Some
pub(crate) const TNS: u16 = 2; // tag_name_start / tag_name_hash / is_in_end_tag describe the tag being named
pub(crate) const NAMED: u16 = 4; // finish_tag_name has run for the tag being scanned
pub(crate) const NOTEND: u16 = 8; // the end-tag marker is clear (create_start_tag relies on it)
pub(crate) const ENDTAG: u16 = 16; // the tag being named is an end tag (marker set)

/// longest look-ahead sequence of the DSL (checked against the generated value)
pub(crate) const MAX_LOOKAHEAD: usize = 7;

pub(crate) struct HintSink {
    pub hints: usize,
    pub last_is_end: bool,
    pub last_is_hash: bool,
    pub lex_after_hint: bool,
}

impl TagHintSink for HintSink {
    fn handle_start_tag_hint(&mut self, n: LocalName<'_>, _ns: Namespace) -> Result<ParserDirective, RewritingError> {
        self.hints += 1;
        self.last_is_end = false;
        self.last_is_hash = matches!(n, LocalName::Hash(_));
        core::mem::forget(n);
        Ok(if self.lex_after_hint { ParserDirective::Lex } else { ParserDirective::WherePossibleScanForTagsOnly })
    }
    fn handle_end_tag_hint(&mut self, n: LocalName<'_>) -> Result<ParserDirective, RewritingError> {
        self.hints += 1;
        self.last_is_end = true;
        self.last_is_hash = matches!(n, LocalName::Hash(_));
        core::mem::forget(n);
        Ok(if self.lex_after_hint { ParserDirective::Lex } else { ParserDirective::WherePossibleScanForTagsOnly })
    }
}
impl LexemeSink for HintSink {
    fn handle_tag(&mut self, _l: &TagLexeme<'_>) -> ActionResult<ParserDirective> {
        Ok(ParserDirective::Lex)
    }
    fn handle_non_tag_content(&mut self, _l: &NonTagContentLexeme<'_>) -> ActionResult {
        Ok(())
    }
}
impl ParserOutputSink for HintSink {}

pub(crate) fn any_hash() -> LocalNameHash {
    let mut h = LocalNameHash::new();
    let k: u8 = kani::any();
    if k >= 1 {
        h.update(kani::any());
    }
    if k >= 2 {
        h.update(kani::any());
    }
    h
}

pub(crate) fn any_text_type() -> TextType {
    let k: u8 = kani::any();
    match k % 6 {
        0 => TextType::Data,
        1 => TextType::PlainText,
        2 => TextType::RCData,
        3 => TextType::RawText,
        4 => TextType::ScriptData,
        _ => TextType::CDataSection,
    }
}

/// Representation invariant of the scanner at the entry of a state (DESIGN §3.2 / C09):
/// `hold_ok` = the state lies between a '<' and the end of a tag name (the only states that may hold
/// a tag start back); `seq` = the state has look-ahead arms (they overwrite ch_sequence_matching_start
/// before reading it).
pub(crate) fn inv(l: &TagScanner<HintSink>, req: u16, hold_ok: bool, seq: bool, dist: isize, input: &[u8]) -> bool {
    let n = input.len();
    let np = l.next_pos;
    if np > n {
        return false;
    }
    if req & NOTEND != 0 && req & ENDTAG == 0 && l.is_in_end_tag {
        return false;
    }
    if req & ENDTAG != 0 && !l.is_in_end_tag {
        return false;
    }
    if !seq && l.ch_sequence_matching_start.is_some() {
        return false;
    }
    if let Some(p) = l.ch_sequence_matching_start {
        if p > np {
            return false;
        }
    }
    match l.tag_start {
        None => {
            if req & TS != 0 {
                return false;
            }
        }
        Some(t) => {
            if !hold_ok {
                return false;
            }
            if !(t < np && input[t] == b'<') {
                return false;
            }
            if dist >= 0 && np - t != dist as usize {
                return false;
            }
            if req & TNS != 0 {
                let want = if l.is_in_end_tag { t + 2 } else { t + 1 };
                if !(l.tag_name_start == want && l.tag_name_start < np) {
                    return false;
                }
            }
        }
    }
    if req & NAMED == 0 && l.pending_text_type_change.is_some() {
        return false;
    }
    true
}

pub(crate) fn any_scanner(req: u16, hold_ok: bool, seq: bool, dist: isize, input: &[u8], fixed_pos: Option<usize>) -> TagScanner<HintSink> {
    let mut l = TagScanner::<HintSink>::new();
    l.next_pos = match fixed_pos {
        Some(p) => p,
        None => kani::any(),
    };
    l.is_last_input = kani::any();
    l.tag_start = if kani::any() { Some(kani::any()) } else { None };
    l.ch_sequence_matching_start = if kani::any() { Some(kani::any()) } else { None };
    l.tag_name_start = kani::any();
    l.is_in_end_tag = kani::any();
    l.tag_name_hash = any_hash();
    l.last_start_tag_name_hash = any_hash();
    l.cdata_allowed = kani::any();
    l.closing_quote = if kani::any() { b'"' } else { b'\'' };
    l.pending_text_type_change = if kani::any() { Some(any_text_type()) } else { None };
    l.last_text_type = any_text_type();
    kani::assume(inv(&l, req, hold_ok, seq, dist, input));
    l
}

pub(crate) trait Tables {
    const UNKNOWN: u16;
    const MAX_SEQ: usize;
    fn state_id(l: &TagScanner<HintSink>) -> u16;
    /// (requirement flags, may hold a tag start, has look-ahead arms, has an appropriate-end-tag gate)
    fn info(sid: u16) -> (u16, bool, bool, bool);
    fn is_succ(from: u16, to: u16) -> bool;
    /// exact next_pos - tag_start at the state's entry when the DSL determines it, else -1
    fn dist(sid: u16) -> isize;
}

pub(crate) struct Step<const NB: usize> {
    pub input: [u8; NB],
    pub n: usize,
    pub l: TagScanner<HintSink>,
    pub ctx: ParserContext<HintSink>,
    pub sid: u16,
    pub pre_tag_start: Option<usize>,
    pub pre_last_hash: LocalNameHash,
    pub pre_pending: Option<TextType>,
}

/// `rem` >= 0: reduction for states with deep #[inline] chains — the chunk has exactly NB bytes of which
/// exactly `rem` are unread, so the inlined loops unroll concretely (DESIGN §3.5)
pub(crate) fn pre_step<T: Tables, const NB: usize>(sid: u16, foreign: bool, rem: isize) -> Step<NB> {
    let input: [u8; NB] = kani::any();
    let n: usize = if rem >= 0 { NB } else { kani::any() };
    kani::assume(n <= NB);
    let (req, hold_ok, seq, _) = T::info(sid);
    let l = any_scanner(req, hold_ok, seq, T::dist(sid), &input[..n], if rem >= 0 { Some(NB - rem as usize) } else { None });
    let ctx = ParserContext {
        output_sink: HintSink { hints: 0, last_is_end: false, last_is_hash: false, lex_after_hint: kani::any() },
        tree_builder_simulator: if foreign {
            crate::parser::tree_builder_simulator::verif_kani::sim_with_stack(kani::any())
        } else {
            TreeBuilderSimulator::new(false)
        },
        previously_consumed_byte_count: 0,
    };
    let pre_tag_start = l.tag_start;
    let pre_last_hash = l.last_start_tag_name_hash;
    let pre_pending = l.pending_text_type_change;
    Step { input, n, l, ctx, sid, pre_tag_start, pre_last_hash, pre_pending }
}

pub(crate) const OUT_OK: u8 = 0;
pub(crate) const OUT_BREAK: u8 = 1;
pub(crate) const OUT_EOF: u8 = 2;
pub(crate) const OUT_SWITCH: u8 = 3;

pub(crate) fn post_step<T: Tables, const NB: usize>(st: Step<NB>, r: StateResult) -> (u8, usize) {
    let Step { input, n, l, ctx, sid, pre_tag_start, pre_last_hash, pre_pending } = st;
    let input = &input[..n];
    let hints = ctx.output_sink.hints;
    let (_, _, _, gate) = T::info(sid);
    assert!(T::MAX_SEQ <= MAX_LOOKAHEAD, "[C09] look-ahead sequences are at most 7 bytes");
    assert!(hints <= 1, "[C06,C15] at most one tag hint per step");
    if gate && hints == 1 {
        assert!(ctx.output_sink.last_is_end, "[C03] a raw-text mode is left only by an end tag");
    }
    let out;
    match r {
        Ok(()) => {
            out = OUT_OK;
            assert!(l.next_pos <= n, "[C01,C15] cursor stays inside the chunk");
            let nid = T::state_id(&l);
            assert!(nid != T::UNKNOWN, "[C15] a transition lands in a named state");
            assert!(T::is_succ(sid, nid), "[C15] the successor is one the state's DSL definition lists");
            let (nreq, nhold, nseq, _) = T::info(nid);
            if !nhold {
                assert!(l.tag_start.is_none(), "[C09] outside '<'..tag-name no tag start is held back");
            }
            assert!(l.ch_sequence_matching_start.is_none(), "[C09] no look-ahead is pending after a transition");
            assert!(inv(&l, nreq, nhold, nseq, T::dist(nid), input), "[C01,C09,C15] the successor state's representation invariant holds");
            if hints == 1 {
                assert!(!l.is_in_end_tag, "[C06] the end-tag marker is reset when the tag name is complete");
            }
            if gate && hints == 1 {
                assert!(l.last_start_tag_name_hash == pre_last_hash, "[C03] end tag hint leaves the last start tag name alone");
            }
            // the text-mode switch a start tag asked for (kept pending until the tag's '>') is applied when the
            // pending marker is consumed; it is never dropped on the way (e.g. by a self-closing slash)
            if hints == 0 {
                if let (Some(t), None) = (pre_pending, l.pending_text_type_change) {
                    assert!(l.last_text_type == t, "[C06] a pending text-mode switch is applied when the tag ends, never dropped");
                }
            }
        }
        Err(e) => {
            match &*e {
                ActionError::EndOfInput { consumed_byte_count } => {
                    let consumed = *consumed_byte_count;
                    assert!(consumed <= n, "[C01,C15] consumed byte count within the chunk");
                    let nid = T::state_id(&l);
                    let known = nid != T::UNKNOWN;
                    if known {
                        assert!(nid == sid || T::is_succ(sid, nid), "[C15] state after a break is the current or an inlined successor state");
                    }
                    if l.is_last_input {
                        out = OUT_EOF;
                    } else {
                        out = OUT_BREAK;
                        let (_, _, sseq, _) = T::info(sid);
                        if sseq || l.ch_sequence_matching_start.is_some() {
                            // a break inside a look-ahead rewinds to the first byte of the sequence
                            assert!(l.next_pos <= n - consumed, "[C02,C09] cursor re-based; at most a look-ahead is re-read");
                        } else {
                            assert!(l.next_pos == n - consumed, "[C02,C14] cursor re-based by exactly the consumed byte count");
                        }
                        // C09: what is held back is the start of one unfinished tag or a short look-ahead
                        match (l.tag_start, l.ch_sequence_matching_start) {
                            (None, None) => assert!(consumed == n, "[C09] nothing is held back when no tag or look-ahead is open"),
                            (Some(t), _) => {
                                assert!(t == 0, "[C02,C09] the open tag starts the carried-over bytes");
                                assert!(consumed < n && input[consumed] == b'<' || l.ch_sequence_matching_start.is_some(), "[C09] held-back bytes start at the '<' of the unfinished tag");
                                if known {
                                    let (_, nhold, _, _) = T::info(nid);
                                    assert!(nhold, "[C09] a tag start is held only between '<' and the end of the tag name");
                                }
                            }
                            (None, Some(_)) => {}
                        }
                        if let Some(_) = l.ch_sequence_matching_start {
                            assert!(n - consumed <= MAX_LOOKAHEAD + 2, "[C09] a pending look-ahead holds back only a few bytes");
                        }
                        if known {
                            let (nreq, nhold, _, _) = T::info(nid);
                            // look-ahead marker is stale after a break (it is overwritten on re-entry): ignore it
                            let mut l2 = TagScanner::<HintSink>::new();
                            l2.next_pos = l.next_pos;
                            l2.tag_start = l.tag_start;
                            l2.tag_name_start = l.tag_name_start;
                            l2.is_in_end_tag = l.is_in_end_tag;
                            l2.pending_text_type_change = l.pending_text_type_change;
                            assert!(inv(&l2, nreq, nhold, true, if nid == sid { T::dist(nid) } else { -1 }, &input[consumed..]), "[C02,C09] the re-based state satisfies the representation invariant over the rest of the chunk");
                            core::mem::forget(l2);
                        }
                    }
                }
                ActionError::ParserDirectiveChangeRequired(_, bm) => {
                    out = OUT_SWITCH;
                    assert!(hints == 0 || ctx.output_sink.lex_after_hint, "[C06] after a tag hint the scanner switches to the lexer only if the sink asked for it");
                    match pre_tag_start {
                        Some(t) => assert!(bm.pos == t, "[C06] the lexer restarts at the '<' of the hinted tag"),
                        None => assert!(bm.pos < n && input[bm.pos] == b'<', "[C06] the lexer restarts at the '<' of the hinted tag"),
                    }
                    assert!(l.tag_start.is_none(), "[C09] the tag start is released when the tag name is complete");
                    assert!(!l.is_in_end_tag, "[C06] the end-tag marker is reset when the tag name is complete, whatever the hand-over reason");
                }
                ActionError::RewritingError(_) => {
                    assert!(false, "[C15] no rewriting error without a failing sink");
                    out = 9;
                }
                ActionError::Internal(_) => {
                    assert!(false, "[C15] internal error");
                    out = 9;
                }
            }
            core::mem::forget(e);
        }
    }
    core::mem::forget(ctx);
    core::mem::forget(l);
    (out, hints)
}
