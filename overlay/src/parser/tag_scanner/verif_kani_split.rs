//! Support for the generated split-vs-whole harnesses of the TagScanner (C09: the number of bytes
//! consumed — hence emitted — after a write depends only on the bytes written so far, not on how they were
//! split; C02; C06 hints). Child module of `parser::tag_scanner`.
// @requires src/parser/tag_scanner/verif_kani_steps.rs
#![allow(dead_code)]
use super::verif_kani_steps::*;
use super::*;
use crate::parser::state_machine::{ActionError, StateMachine};

#[derive(Clone, Copy)]
pub(crate) struct Sym {
    np: usize,
    ts: (bool, usize),
    tns: usize,
    end: bool,
    th: (u8, u8, u8),
    lh: (u8, u8, u8),
    cdata: bool,
    dq: bool,
    pend: (bool, u8),
    ltt: u8,
}

pub(crate) fn sym_any() -> Sym {
    Sym {
        np: kani::any(),
        ts: kani::any(),
        tns: kani::any(),
        end: kani::any(),
        th: kani::any(),
        lh: kani::any(),
        cdata: kani::any(),
        dq: kani::any(),
        pend: kani::any(),
        ltt: kani::any(),
    }
}

fn hash_from(h: (u8, u8, u8)) -> LocalNameHash {
    let mut x = LocalNameHash::new();
    if h.0 % 3 >= 1 {
        x.update(h.1);
    }
    if h.0 % 3 >= 2 {
        x.update(h.2);
    }
    x
}

fn tt(k: u8) -> TextType {
    match k % 6 {
        0 => TextType::Data,
        1 => TextType::PlainText,
        2 => TextType::RCData,
        3 => TextType::RawText,
        4 => TextType::ScriptData,
        _ => TextType::CDataSection,
    }
}

pub(crate) fn build(s: &Sym) -> TagScanner<HintSink> {
    let mut l = TagScanner::<HintSink>::new();
    l.next_pos = s.np;
    l.is_last_input = false;
    l.tag_start = if s.ts.0 { Some(s.ts.1) } else { None };
    l.ch_sequence_matching_start = None;
    l.tag_name_start = s.tns;
    l.is_in_end_tag = s.end;
    l.tag_name_hash = hash_from(s.th);
    l.last_start_tag_name_hash = hash_from(s.lh);
    l.cdata_allowed = s.cdata;
    l.closing_quote = if s.dq { b'"' } else { b'\'' };
    l.pending_text_type_change = if s.pend.0 { Some(tt(s.pend.1)) } else { None };
    l.last_text_type = tt(s.ltt);
    l
}

#[derive(Clone, Copy, PartialEq)]
pub(crate) enum Out {
    Ok,
    Break(usize),
    Switch(usize),
    Other,
}

pub(crate) fn outcome(r: StateResult) -> Out {
    match r {
        Ok(()) => Out::Ok,
        Err(e) => {
            let o = match &*e {
                ActionError::EndOfInput { consumed_byte_count } => Out::Break(*consumed_byte_count),
                ActionError::ParserDirectiveChangeRequired(_, bm) => Out::Switch(bm.pos),
                _ => Out::Other,
            };
            core::mem::forget(e);
            o
        }
    }
}

pub(crate) fn same_observable(a: &TagScanner<HintSink>, b: &TagScanner<HintSink>, ha: &HintSink, hb: &HintSink) {
    assert!(ha.hints == hb.hints, "[C02,C06] the tag hints do not depend on how the input was split");
    if ha.hints > 0 {
        assert!(ha.last_is_end == hb.last_is_end && ha.last_is_hash == hb.last_is_hash, "[C02,C06] the tag hints do not depend on how the input was split");
    }
    assert!(a.last_text_type == b.last_text_type && a.cdata_allowed == b.cdata_allowed, "[C02] text mode and CDATA permission do not depend on the split");
    assert!(a.last_start_tag_name_hash == b.last_start_tag_name_hash, "[C02] last start tag name does not depend on the split");
}
