//! Kani harness: hand-over from the tag scanner to the lexer through a bookmark (C06).
//! Child module of `parser::lexer`.
// @requires src/parser/lexer/verif_kani_steps.rs
use super::verif_kani_steps::{any_hash, any_text_type, new_ctx, StepSink};
use super::*;
use crate::parser::state_machine::{ActionError, StateMachine, StateMachineConditions};
use crate::parser::tag_scanner::TagScanner;
use crate::parser::TreeBuilderFeedback;

/// scanner → lexer: the bookmark carries CDATA permission, text type, last start tag name and the
/// feedback directive, whatever the directive is; the lexer restarts its lexeme at the bookmark
/// position and runs on from the text state of that text type.
// @verif props=C06,C15 fns=StateMachine::continue_from_bookmark,StateMachine::create_bookmark,Lexer::adjust_to_bookmark
#[kani::proof]
#[kani::unwind(4)]
fn c06_bookmark_scanner_to_lexer_restores_every_field() {
    let mut src = TagScanner::<StepSink>::new();
    let cd: bool = kani::any();
    let tt = any_text_type();
    let h = any_hash();
    src.set_cdata_allowed(cd);
    src.set_last_text_type(tt);
    src.set_last_start_tag_name_hash(h);
    let k: u8 = kani::any();
    let fd = match k % 3 {
        0 => FeedbackDirective::None,
        1 => FeedbackDirective::Skip,
        _ => FeedbackDirective::ApplyUnhandledFeedback(TreeBuilderFeedback::SwitchTextType(any_text_type())),
    };
    let bm = src.create_bookmark(0, fd);
    let mut dst = Lexer::<StepSink>::new();
    // stale state from an earlier lexing phase
    dst.cdata_allowed = kani::any();
    dst.last_text_type = any_text_type();
    dst.last_start_tag_name_hash = any_hash();
    dst.lexeme_start = kani::any();
    dst.next_pos = kani::any();
    let mut ctx = new_ctx(0, false);
    let input: [u8; 0] = [];
    let r = dst.continue_from_bookmark(&mut ctx, &input, false, bm);
    assert!(dst.cdata_allowed() == cd, "[C06] CDATA permission survives the mode switch");
    assert!(dst.last_text_type == tt, "[C06] text mode survives the mode switch");
    assert!(dst.last_start_tag_name_hash == h, "[C06] last start tag name survives the mode switch");
    match (&dst.feedback_directive, k % 3) {
        (FeedbackDirective::None, 0) | (FeedbackDirective::Skip, 1) | (FeedbackDirective::ApplyUnhandledFeedback(_), 2) => {}
        _ => assert!(false, "[C06] the feedback directive is handed to the lexer unchanged"),
    }
    match r {
        Err(e) => {
            match &*e {
                ActionError::EndOfInput { consumed_byte_count } => assert!(*consumed_byte_count == 0),
                _ => assert!(false),
            }
            core::mem::forget(e);
        }
        Ok(never) => match never {},
    }
    kani::cover!(k % 3 == 2 && cd);
    core::mem::forget(ctx);
    core::mem::forget(dst);
    core::mem::forget(src);
}
