//! Support for the generated split-vs-whole harnesses (C02, C09 schedule independence, C14 absolute
//! offsets): one tokenizer state run once over a chunk, versus the same pre-state run over a prefix of the
//! chunk, re-based at the end of the prefix exactly as `break_on_end_of_input` does, and continued over
//! the rest. Child module of `parser::lexer`; harnesses are generated into `verif_kani_split_gen.rs`.
// @requires src/parser/lexer/verif_kani_steps.rs
#![allow(dead_code)]
use super::verif_kani_steps::*;
use super::*;
use crate::parser::state_machine::{ActionError, StateMachine};
use crate::parser::ParserContext;

/// all symbolic draws of a pre-state, so that two identical lexers can be built from them
#[derive(Clone, Copy)]
pub(crate) struct Sym {
    np: usize,
    ls: usize,
    tps: usize,
    cdata: bool,
    dq: bool,
    ltt: u8,
    lh: (u8, u8, u8),
    th: (u8, u8, u8),
    name: (usize, usize),
    sc: bool,
    cur: [usize; 6],
    c: (usize, usize),
    d: [(bool, usize, usize); 3],
    fq: bool,
}

pub(crate) fn sym_any() -> Sym {
    Sym {
        np: kani::any(),
        ls: kani::any(),
        tps: kani::any(),
        cdata: kani::any(),
        dq: kani::any(),
        ltt: kani::any(),
        lh: kani::any(),
        th: kani::any(),
        name: kani::any(),
        sc: kani::any(),
        cur: kani::any(),
        c: kani::any(),
        d: kani::any(),
        fq: kani::any(),
    }
}

fn hash_from(h: (u8, u8, u8)) -> LocalNameHash {
    let mut x = LocalNameHash::new();
    if h.0 % 3 >= 1 {
        x.update(h.1);
    }
    if h.0 % 3 >= 2 {
        x.update(h.2);
    }
    x
}

fn tt(k: u8) -> TextType {
    match k % 6 {
        0 => TextType::Data,
        1 => TextType::PlainText,
        2 => TextType::RCData,
        3 => TextType::RawText,
        4 => TextType::ScriptData,
        _ => TextType::CDataSection,
    }
}

fn opt(r: (bool, usize, usize)) -> Option<Range> {
    if r.0 { Some(Range { start: r.1, end: r.2 }) } else { None }
}

pub(crate) fn build(s: &Sym, req: u16, end_tag: bool) -> Lexer<StepSink> {
    let mut l = Lexer::<StepSink>::new();
    l.next_pos = s.np;
    l.lexeme_start = s.ls;
    l.token_part_start = s.tps;
    l.is_last_input = false;
    l.cdata_allowed = s.cdata;
    l.closing_quote = if s.dq { b'"' } else { b'\'' };
    l.last_text_type = tt(s.ltt);
    l.last_start_tag_name_hash = hash_from(s.lh);
    l.feedback_directive = FeedbackDirective::Skip;
    if req & TAG != 0 {
        l.current_tag_token = Some(if end_tag {
            TagTokenOutline::EndTag { name: Range { start: s.name.0, end: s.name.1 }, name_hash: hash_from(s.th) }
        } else {
            TagTokenOutline::StartTag {
                name: Range { start: s.name.0, end: s.name.1 },
                name_hash: hash_from(s.th),
                ns: Namespace::Html,
                attributes: Vec::with_capacity(4),
                self_closing: s.sc,
            }
        });
        if req & ATTR != 0 && !end_tag {
            l.current_attr = Some(if req & ATTRNAMED != 0 {
                AttributeOutline {
                    name: Range { start: s.cur[0], end: s.cur[1] },
                    value: Range { start: s.cur[2], end: s.cur[3] },
                    raw_range: Range { start: s.cur[4], end: s.cur[5] },
                }
            } else {
                AttributeOutline::default()
            });
        }
    }
    if req & COMMENT != 0 {
        l.current_non_tag_content_token = Some(NonTagContentTokenOutline::Comment(Range { start: s.c.0, end: s.c.1 }));
    } else if req & (DOCTYPE | ANYTOKEN) != 0 {
        l.current_non_tag_content_token = Some(NonTagContentTokenOutline::Doctype(Box::new(DoctypeTokenOutline {
            name: opt(s.d[0]),
            public_id: opt(s.d[1]),
            system_id: opt(s.d[2]),
            force_quirks: s.fq,
        })));
    }
    l
}

#[derive(Clone, Copy, PartialEq)]
pub(crate) enum Out {
    Ok,
    Break(usize),
    Switch(usize),
    Other,
}

pub(crate) fn outcome(r: StateResult) -> Out {
    match r {
        Ok(()) => Out::Ok,
        Err(e) => {
            let o = match &*e {
                ActionError::EndOfInput { consumed_byte_count } => Out::Break(*consumed_byte_count),
                ActionError::ParserDirectiveChangeRequired(_, bm) => Out::Switch(bm.pos),
                _ => Out::Other,
            };
            core::mem::forget(e);
            o
        }
    }
}

/// absolute view of a recorded lexeme
#[derive(Clone, Copy)]
struct Abs {
    kind: u8,
    start: usize,
    end: usize,
    hash: LocalNameHash,
    n_attrs: usize,
    sc: bool,
    a_start: usize,
    a_end: usize,
}

/// the lexemes of a sink at absolute document offsets, with adjacent text lexemes of one text node merged
/// (C02: "only the fragmentation of a text node into chunks may vary")
fn normalised(s: &StepSink) -> ([Abs; MAX_RECS], usize) {
    let z = Abs { kind: 9, start: 0, end: 0, hash: LocalNameHash::new(), n_attrs: 0, sc: false, a_start: 0, a_end: 0 };
    let mut out = [z; MAX_RECS];
    let mut n = 0usize;
    let mut i = 0;
    while i < s.n && i < MAX_RECS {
        let r = &s.recs[i];
        let has_inner = r.kind == K_COMMENT || (r.kind == K_START && r.n_attrs > 0);
        let a = Abs {
            kind: r.kind,
            start: r.off + r.start,
            end: r.off + r.end,
            hash: r.name_hash,
            n_attrs: r.n_attrs,
            sc: r.self_closing,
            a_start: if has_inner { r.off + r.a_start } else { 0 },
            a_end: if has_inner { r.off + r.a_end } else { 0 },
        };
        if n > 0 && a.kind == K_TEXT && out[n - 1].kind == K_TEXT && out[n - 1].end == a.start {
            out[n - 1].end = a.end;
        } else {
            out[n] = a;
            n += 1;
        }
        i += 1;
    }
    (out, n)
}

/// Every lexeme the whole run handed to the sink was handed over by the split run too, in the same order,
/// at the same ABSOLUTE document offsets and with the same outline (text lexemes compared after merging).
pub(crate) fn same_lexemes(a: &StepSink, b: &StepSink) {
    assert!(a.n <= MAX_RECS && b.n <= MAX_RECS, "[C15] harness bound: at most 4 lexemes per run");
    let (xa, na) = normalised(a);
    let (xb, nb) = normalised(b);
    assert!(na == nb, "[C02] splitting a chunk does not change the sequence of lexemes (text fragmentation aside)");
    let mut i = 0;
    while i < na && i < MAX_RECS {
        let (x, y) = (&xa[i], &xb[i]);
        assert!(x.kind == y.kind, "[C02] splitting a chunk does not change the kind of a lexeme");
        assert!(x.start == y.start && x.end == y.end, "[C02,C14] lexemes have the same absolute range however the input is split");
        assert!(x.hash == y.hash && x.n_attrs == y.n_attrs && x.sc == y.sc, "[C02,C16] tag outline does not depend on the split");
        assert!(x.a_start == y.a_start && x.a_end == y.a_end, "[C02,C14,C16] attribute / comment text ranges have the same absolute position however the input is split");
        i += 1;
    }
}

pub(crate) fn same_scalars(a: &Lexer<StepSink>, b: &Lexer<StepSink>) {
    assert!(a.last_text_type == b.last_text_type && a.cdata_allowed == b.cdata_allowed && a.closing_quote == b.closing_quote, "[C02] text mode, CDATA permission and quote do not depend on the split");
    assert!(a.last_start_tag_name_hash == b.last_start_tag_name_hash, "[C02] last start tag name does not depend on the split");
}
