//! Support code for the generated one-step harnesses over the Lexer state machine
//! (DESIGN §3). Child module of `parser::lexer`. The per-state harnesses themselves are generated
//! from /repo's DSL into `verif_kani_steps_gen.rs` on every run.
#![allow(dead_code)]
use super::*;
use crate::html::LocalName;
use crate::parser::state_machine::{ActionError, StateMachine};
use crate::parser::{ParserContext, ParserOutputSink, TagHintSink, TreeBuilderSimulator};
use crate::rewriter::RewritingError;

// requirement flags computed by the generator's backward dataflow over the DSL
pub(crate) const TAG: u16 = 1;
pub(crate) const NAMED: u16 = 2;
pub(crate) const TPS: u16 = 4;
pub(crate) const ATTR: u16 = 8;
pub(crate) const ATTRNAMED: u16 = 16;
pub(crate) const COMMENT: u16 = 32;
pub(crate) const DOCTYPE: u16 = 64;
pub(crate) const ANYTOKEN: u16 = 128;

pub(crate) const K_TEXT: u8 = 0;
pub(crate) const K_COMMENT: u8 = 1;
pub(crate) const K_DOCTYPE: u8 = 2;
pub(crate) const K_EOF: u8 = 3;
pub(crate) const K_RAW: u8 = 4;
pub(crate) const K_START: u8 = 5;
pub(crate) const K_END: u8 = 6;

#[derive(Clone, Copy)]
pub(crate) struct Rec {
    pub start: usize,
    pub end: usize,
    pub off: usize,
    pub kind: u8,
    pub outline_ok: bool,
    pub name_hash: LocalNameHash,
    pub n_attrs: usize,
    pub self_closing: bool,
    pub a_start: usize,
    pub a_end: usize,
}

pub(crate) const MAX_RECS: usize = 4;

pub(crate) struct StepSink {
    pub recs: [Rec; MAX_RECS],
    pub n: usize,
    pub scan_after_tag: bool,
}

impl StepSink {
    pub fn new(scan_after_tag: bool) -> Self {
        let z = Rec {
            start: 0,
            end: 0,
            off: 0,
            kind: 9,
            outline_ok: true,
            name_hash: LocalNameHash::new(),
            n_attrs: 0,
            self_closing: false,
            a_start: 0,
            a_end: 0,
        };
        StepSink { recs: [z; MAX_RECS], n: 0, scan_after_tag }
    }

    fn push(&mut self, r: Rec) {
        if self.n < MAX_RECS {
            self.recs[self.n] = r;
        }
        self.n += 1;
    }
}

fn within(r: Range, lo: usize, hi: usize) -> bool {
    lo <= r.start && r.start <= r.end && r.end <= hi
}

pub(crate) fn attr_outline_ok(a: &AttributeOutline, lo: usize, hi: usize) -> bool {
    // name ⊆ raw_range ⊆ [lo, hi]; raw_range starts at the name; the value is either the
    // default empty range (valueless attribute) or lies after the name inside raw_range
    // an attribute name is never empty: it starts with the character that opened the attribute
    lo <= a.name.start
        && a.name.start < a.name.end
        && a.name.end <= a.raw_range.end
        && a.raw_range.end <= hi
        && a.raw_range.start == a.name.start
        && ((a.value.start == 0 && a.value.end == 0)
            || (a.name.end <= a.value.start && a.value.start <= a.value.end && a.value.end <= a.raw_range.end))
}

impl LexemeSink for StepSink {
    fn handle_tag(&mut self, lexeme: &TagLexeme<'_>) -> ActionResult<ParserDirective> {
        let raw = lexeme.raw_range();
        let mut rec = Rec {
            start: raw.start,
            end: raw.end,
            off: lexeme.input_byte_offset(),
            kind: K_START,
            outline_ok: true,
            name_hash: LocalNameHash::new(),
            n_attrs: 0,
            self_closing: false,
            a_start: 0,
            a_end: 0,
        };
        match lexeme.token_outline() {
            TagTokenOutline::StartTag { name, name_hash, attributes, self_closing, .. } => {
                rec.name_hash = *name_hash;
                rec.self_closing = *self_closing;
                rec.n_attrs = attributes.len();
                // '<' name ... '>'
                let mut ok = raw.end >= raw.start + 3 && name.start == raw.start + 1 && name.start < name.end && name.end <= raw.end - 1;
                let mut prev_end = name.end;
                let mut i = 0;
                while i < attributes.len() {
                    let a = &attributes[i];
                    ok = ok && attr_outline_ok(a, prev_end, raw.end - 1);
                    prev_end = a.raw_range.end;
                    if i + 1 == attributes.len() {
                        rec.a_start = a.name.start;
                        rec.a_end = a.raw_range.end;
                    }
                    i += 1;
                }
                rec.outline_ok = ok;
            }
            TagTokenOutline::EndTag { name, name_hash } => {
                rec.kind = K_END;
                rec.name_hash = *name_hash;
                // '</' name ... '>'
                rec.outline_ok = raw.end >= raw.start + 4 && name.start == raw.start + 2 && name.start < name.end && name.end <= raw.end - 1;
            }
        }
        self.push(rec);
        Ok(if self.scan_after_tag { ParserDirective::WherePossibleScanForTagsOnly } else { ParserDirective::Lex })
    }

    fn handle_non_tag_content(&mut self, lexeme: &NonTagContentLexeme<'_>) -> ActionResult {
        let raw = lexeme.raw_range();
        let mut rec = Rec {
            start: raw.start,
            end: raw.end,
            off: lexeme.input_byte_offset(),
            kind: K_RAW,
            outline_ok: true,
            name_hash: LocalNameHash::new(),
            n_attrs: 0,
            self_closing: false,
            a_start: 0,
            a_end: 0,
        };
        match lexeme.token_outline() {
            None => {}
            Some(NonTagContentTokenOutline::Text(_)) => {
                rec.kind = K_TEXT;
                rec.outline_ok = raw.end > raw.start;
            }
            Some(NonTagContentTokenOutline::Eof) => {
                rec.kind = K_EOF;
                rec.outline_ok = raw.end == raw.start;
            }
            Some(NonTagContentTokenOutline::Comment(text)) => {
                rec.kind = K_COMMENT;
                rec.outline_ok = within(*text, raw.start, raw.end);
                rec.a_start = text.start;
                rec.a_end = text.end;
            }
            Some(NonTagContentTokenOutline::Doctype(d)) => {
                rec.kind = K_DOCTYPE;
                let mut ok = true;
                if let Some(r) = d.name {
                    ok = ok && within(r, raw.start, raw.end);
                }
                if let Some(r) = d.public_id {
                    ok = ok && within(r, raw.start, raw.end);
                }
                if let Some(r) = d.system_id {
                    ok = ok && within(r, raw.start, raw.end);
                }
                rec.outline_ok = ok;
            }
        }
        self.push(rec);
        Ok(())
    }
}

impl TagHintSink for StepSink {
    fn handle_start_tag_hint(&mut self, _n: LocalName<'_>, _ns: Namespace) -> Result<ParserDirective, RewritingError> {
        Ok(ParserDirective::Lex)
    }
    fn handle_end_tag_hint(&mut self, _n: LocalName<'_>) -> Result<ParserDirective, RewritingError> {
        Ok(ParserDirective::Lex)
    }
}
impl ParserOutputSink for StepSink {}

pub(crate) fn any_hash() -> LocalNameHash {
    // hashes of all names of <= 2 characters (incl. the invalidated hash); equality with another such
    // hash is what the appropriate-end-tag gate depends on
    let mut h = LocalNameHash::new();
    let k: u8 = kani::any();
    if k >= 1 {
        h.update(kani::any());
    }
    if k >= 2 {
        h.update(kani::any());
    }
    h
}

pub(crate) fn any_text_type() -> TextType {
    let k: u8 = kani::any();
    match k % 6 {
        0 => TextType::Data,
        1 => TextType::PlainText,
        2 => TextType::RCData,
        3 => TextType::RawText,
        4 => TextType::ScriptData,
        _ => TextType::CDataSection,
    }
}

fn any_range() -> Range {
    Range { start: kani::any(), end: kani::any() }
}

fn any_attr() -> AttributeOutline {
    AttributeOutline { name: any_range(), value: any_range(), raw_range: any_range() }
}

/// The representation invariant of the Lexer at the entry of a state function whose requirement set
/// is `req` (DESIGN §3.2), over a buffer of length n. `k` = number of bytes already consumed after
/// the marked comment text end (comment end states).
pub(crate) fn inv(l: &Lexer<StepSink>, req: u16, k: usize, dist: isize, n: usize) -> bool {
    let ls = l.lexeme_start;
    let np = l.next_pos;
    if !(ls <= np && np <= n) {
        return false;
    }
    if dist >= 0 && np - ls != dist as usize {
        return false;
    }
    if req & TPS != 0 && !(ls <= l.token_part_start && l.token_part_start <= np) {
        return false;
    }
    if req & TAG != 0 {
        match &l.current_tag_token {
            None => return false,
            Some(TagTokenOutline::StartTag { name, attributes, .. }) => {
                if req & NAMED != 0 {
                    if !(name.start == ls + 1 && name.start < name.end && name.end <= np) {
                        return false;
                    }
                    let mut prev = name.end;
                    let mut i = 0;
                    while i < attributes.len() {
                        if !attr_outline_ok(&attributes[i], prev, np) {
                            return false;
                        }
                        prev = attributes[i].raw_range.end;
                        i += 1;
                    }
                    if req & ATTR != 0 {
                        match &l.current_attr {
                            None => return false,
                            Some(a) => {
                                if req & ATTRNAMED != 0 {
                                    // name finished; value not yet (default) or finished
                                    if !attr_outline_ok(a, prev, np) {
                                        return false;
                                    }
                                } else if !(prev <= l.token_part_start && l.token_part_start < np) {
                                    // attribute name in progress: starts after everything finished so far, and its
                                    // first character (the one that opened the attribute) is already consumed
                                    return false;
                                }
                            }
                        }
                    }
                } else {
                    // tag name in progress: starts right after '<', no attributes yet
                    if req & TPS != 0 && !(l.token_part_start == ls + 1 && l.token_part_start < np) {
                        return false;
                    }
                    if !attributes.is_empty() {
                        return false;
                    }
                }
            }
            Some(TagTokenOutline::EndTag { name, .. }) => {
                if req & NAMED != 0 {
                    if !(name.start == ls + 2 && name.start < name.end && name.end <= np) {
                        return false;
                    }
                } else if req & TPS != 0 && !(l.token_part_start == ls + 2 && l.token_part_start < np) {
                    return false;
                }
            }
        }
    }
    if req & (COMMENT | DOCTYPE | ANYTOKEN) != 0 {
        match &l.current_non_tag_content_token {
            Some(NonTagContentTokenOutline::Comment(r)) => {
                if req & DOCTYPE != 0 {
                    return false;
                }
                let unmarked = r.start == 0 && r.end == 0 && k == 0;
                let marked = r.start == l.token_part_start && ls <= r.start && r.start <= r.end && r.end <= np && np - r.end >= k;
                if !(unmarked || marked) {
                    return false;
                }
            }
            Some(NonTagContentTokenOutline::Doctype(d)) => {
                if req & COMMENT != 0 {
                    return false;
                }
                if let Some(r) = d.name {
                    if !within(r, ls, np) {
                        return false;
                    }
                }
                if let Some(r) = d.public_id {
                    if !within(r, ls, np) {
                        return false;
                    }
                }
                if let Some(r) = d.system_id {
                    if !within(r, ls, np) {
                        return false;
                    }
                }
            }
            _ => return false,
        }
    }
    true
}

/// An arbitrary Lexer satisfying `inv(req, k, n)`; what `req` does not mention is arbitrary (stale).
pub(crate) fn any_lexer(n: usize, req: u16, k: usize, dist: isize, end_tag: bool, pre_attrs: usize, fixed_pos: Option<usize>) -> Lexer<StepSink> {
    let mut l = Lexer::<StepSink>::new();
    l.next_pos = match fixed_pos {
        Some(p) => p,
        None => kani::any(),
    };
    l.lexeme_start = kani::any();
    l.token_part_start = kani::any();
    l.is_last_input = kani::any();
    l.cdata_allowed = kani::any();
    l.closing_quote = if kani::any() { b'"' } else { b'\'' };
    l.last_text_type = any_text_type();
    l.last_start_tag_name_hash = any_hash();
    // the tree builder simulator is not consulted by the step harnesses (reduction §3.5-3); the
    // feedback paths have their own harnesses
    l.feedback_directive = FeedbackDirective::Skip;
    if req & TAG != 0 {
        l.current_tag_token = Some(if end_tag {
            TagTokenOutline::EndTag { name: any_range(), name_hash: any_hash() }
        } else {
            let mut attributes = Vec::with_capacity(4);
            if pre_attrs >= 1 {
                attributes.push(any_attr());
            }
            TagTokenOutline::StartTag {
                name: any_range(),
                name_hash: any_hash(),
                ns: Namespace::Html,
                attributes,
                self_closing: kani::any(),
            }
        });
        if req & ATTR != 0 && !end_tag {
            l.current_attr = Some(if req & ATTRNAMED != 0 { any_attr() } else { AttributeOutline::default() });
        }
    }
    if req & COMMENT != 0 {
        l.current_non_tag_content_token = Some(NonTagContentTokenOutline::Comment(any_range()));
    } else if req & (DOCTYPE | ANYTOKEN) != 0 {
        l.current_non_tag_content_token = Some(NonTagContentTokenOutline::Doctype(Box::new(DoctypeTokenOutline {
            name: if kani::any() { Some(any_range()) } else { None },
            public_id: if kani::any() { Some(any_range()) } else { None },
            system_id: if kani::any() { Some(any_range()) } else { None },
            force_quirks: kani::any(),
        })));
    }
    // end-tag tokens carry no attribute requirements
    let eff = eff_req_for(end_tag, req);
    kani::assume(inv(&l, eff, k, dist, n));
    l
}

pub(crate) struct Pre {
    pub ls: usize,
    pub np: usize,
    pub pc: usize,
    pub last_hash: LocalNameHash,
}

pub(crate) fn new_ctx(pc: usize, scan_after_tag: bool) -> ParserContext<StepSink> {
    ParserContext {
        output_sink: StepSink::new(scan_after_tag),
        tree_builder_simulator: TreeBuilderSimulator::new(false),
        previously_consumed_byte_count: pc,
    }
}

/// P-tile: the lexemes handed to the sink during the step tile the chunk from the pre-state's
/// lexeme_start; returns the end of the last lexeme.
pub(crate) fn check_tiling(s: &StepSink, pre: &Pre, n: usize) -> usize {
    assert!(s.n <= MAX_RECS, "[C15] harness bound: at most 4 lexemes per step");
    let mut expect = pre.ls;
    let mut i = 0;
    while i < s.n && i < MAX_RECS {
        let r = &s.recs[i];
        assert!(r.start == expect, "[C01,C14] lexemes are contiguous: each starts where the previous one ended");
        assert!(r.start <= r.end && r.end <= n, "[C01,C14] lexeme raw range lies inside the chunk");
        assert!(r.off == pre.pc, "[C14] lexeme carries the absolute offset of its chunk");
        assert!(r.outline_ok, "[C14,C16] token outline ranges lie inside the lexeme and are well formed");
        expect = r.end;
        i += 1;
    }
    expect
}

/// Tables generated from the DSL of /repo's current tree.
pub(crate) trait Tables {
    const UNKNOWN: u16;
    fn state_id(l: &Lexer<StepSink>) -> u16;
    /// (requirement flags, comment-end offset k, has an appropriate-end-tag gate)
    fn info(sid: u16) -> (u16, usize, bool);
    /// exact value of next_pos - lexeme_start at the state's entry when the DSL determines it, else -1
    fn dist(sid: u16) -> isize;
    /// the state (or a state it inlines) has look-ahead arms
    fn has_lookahead(sid: u16) -> bool;
    fn is_succ(from: u16, to: u16) -> bool;
    /// the tag continues (attributes / self-closing) in these states
    fn is_tag_continuation(sid: u16) -> bool;
}

pub(crate) struct Step<const NB: usize> {
    pub input: [u8; NB],
    pub n: usize,
    pub l: Lexer<StepSink>,
    pub ctx: ParserContext<StepSink>,
    pub pre: Pre,
    pub sid: u16,
}

/// `rem` < 0: chunk length and cursor symbolic. `rem` >= 0 (reduction for states with deep #[inline]
/// chains, DESIGN §3.5): the chunk has exactly NB bytes and exactly `rem` of them are still unread, so that
/// every loop of the inlined chain unrolls concretely.
pub(crate) fn pre_step<T: Tables, const NB: usize>(sid: u16, end_tag: bool, pre_attrs: usize, rem: isize) -> Step<NB> {
    let input: [u8; NB] = kani::any();
    let n: usize = if rem >= 0 { NB } else { kani::any() };
    kani::assume(n <= NB);
    let (req, k, _) = T::info(sid);
    let l = any_lexer(n, req, k, T::dist(sid), end_tag, pre_attrs, if rem >= 0 { Some(NB - rem as usize) } else { None });
    let pc: usize = kani::any();
    kani::assume(pc <= usize::MAX / 2);
    let pre = Pre { ls: l.lexeme_start, np: l.next_pos, pc, last_hash: l.last_start_tag_name_hash };
    let ctx = new_ctx(pc, kani::any());
    Step { input, n, l, ctx, pre, sid }
}

/// end tags carry no attributes: the attribute requirements (and the token part start, which in the
/// attribute states refers to an attribute part) are vacuous for them
pub(crate) fn eff_req_for(end_tag: bool, req: u16) -> u16 {
    if end_tag && req & NAMED != 0 {
        req & !(ATTR | ATTRNAMED | TPS)
    } else {
        req
    }
}

fn eff_req(l: &Lexer<StepSink>, req: u16) -> u16 {
    eff_req_for(matches!(tag_hash(l), Some((_, true))), req)
}

fn tag_hash(l: &Lexer<StepSink>) -> Option<(LocalNameHash, bool)> {
    match &l.current_tag_token {
        Some(TagTokenOutline::StartTag { name_hash, .. }) => Some((*name_hash, false)),
        Some(TagTokenOutline::EndTag { name_hash, .. }) => Some((*name_hash, true)),
        None => None,
    }
}

pub(crate) const OUT_OK: u8 = 0;
pub(crate) const OUT_BREAK: u8 = 1;
pub(crate) const OUT_EOF: u8 = 2;
pub(crate) const OUT_SWITCH: u8 = 3;

/// checks every post-condition of one step and returns what kind of outcome it was (for vacuity covers)
pub(crate) fn post_step<T: Tables, const NB: usize>(st: Step<NB>, r: StateResult) -> (u8, usize) {
    let Step { n, l, ctx, pre, sid, .. } = st;
    let s = &ctx.output_sink;
    let last_end = check_tiling(s, &pre, n);
    let (_, _, gate) = T::info(sid);
    if gate {
        let mut i = 0;
        while i < s.n && i < MAX_RECS {
            if s.recs[i].kind == K_END || s.recs[i].kind == K_START {
                assert!(s.recs[i].kind == K_END && s.recs[i].name_hash == pre.last_hash,
                    "[C03] a raw-text mode is left only by the appropriate end tag");
            }
            i += 1;
        }
    }
    let out;
    let emitted = s.n;
    match r {
        Ok(()) => {
            out = OUT_OK;
            assert!(l.lexeme_start == last_end, "[C01,C09] lexeme_start is the end of the last emitted lexeme");
            assert!(l.lexeme_start <= l.next_pos && l.next_pos <= n, "[C01,C15] cursor stays inside the chunk");
            let nid = T::state_id(&l);
            assert!(nid != T::UNKNOWN, "[C15] a transition lands in a named state");
            assert!(T::is_succ(sid, nid), "[C15] the successor is one the state's DSL definition lists");
            let (nreq, nk, _) = T::info(nid);
            let eff = eff_req(&l, nreq);
            assert!(inv(&l, eff, nk, T::dist(nid), n), "[C01,C14,C15,C16] the successor state's representation invariant holds");
            if gate && T::is_tag_continuation(nid) {
                match tag_hash(&l) {
                    Some((h, true)) => assert!(h == pre.last_hash, "[C03] only the appropriate end tag continues as a tag"),
                    _ => assert!(false, "[C03] only the appropriate end tag continues as a tag"),
                }
            }
        }
        Err(e) => {
            match &*e {
                ActionError::EndOfInput { consumed_byte_count } => {
                    let consumed = *consumed_byte_count;
                    assert!(consumed == last_end, "[C01,C09] consumed byte count is the end of the last emitted lexeme");
                    assert!(consumed <= n, "[C01,C15] consumed byte count within the chunk");
                    if l.is_last_input {
                        assert!(s.n >= 1 && s.n <= MAX_RECS && s.recs[s.n - 1].kind == K_EOF, "[C01] end of input is reported");
                        assert!(last_end == n, "[C01] at end of input every byte has been handed to the sink");
                        out = OUT_EOF;
                    } else {
                        assert!(l.lexeme_start == 0, "[C02,C14] the unfinished lexeme starts the carried-over bytes");
                        if T::has_lookahead(sid) {
                            // a break inside a look-ahead rewinds to the first byte of the sequence
                            assert!(l.next_pos <= n - consumed && n - consumed - l.next_pos <= 7, "[C02,C09] cursor re-based; at most a look-ahead is re-read");
                        } else {
                            assert!(l.next_pos == n - consumed, "[C02,C14] cursor re-based by exactly the consumed byte count");
                        }
                        let nid = T::state_id(&l);
                        if nid != T::UNKNOWN {
                            assert!(nid == sid || T::is_succ(sid, nid), "[C15] state after a break is the current or an inlined successor state");
                            let (nreq, nk, _) = T::info(nid);
                            let eff = eff_req(&l, nreq);
                            assert!(inv(&l, eff, nk, if nid == sid { T::dist(nid) } else { -1 }, n - consumed), "[C02,C14,C16] the re-based state satisfies the representation invariant over the rest of the chunk");
                        }
                        out = OUT_BREAK;
                    }
                }
                ActionError::ParserDirectiveChangeRequired(_, bm) => {
                    assert!(s.scan_after_tag, "[C06] a mode switch happens only when the sink asks for it");
                    assert!(s.n >= 1 && s.n <= MAX_RECS && (s.recs[s.n - 1].kind == K_START || s.recs[s.n - 1].kind == K_END), "[C06] mode switch right after a tag");
                    assert!(bm.pos == last_end && l.lexeme_start == last_end, "[C06,C01] hand-over position is the end of the emitted tag");
                    out = OUT_SWITCH;
                }
                ActionError::RewritingError(_) => {
                    assert!(false, "[C15] no rewriting error without a failing sink");
                    out = 9;
                }
                ActionError::Internal(_) => {
                    assert!(false, "[C15] internal error");
                    out = 9;
                }
            }
            core::mem::forget(e);
        }
    }
    core::mem::forget(ctx);
    core::mem::forget(l);
    (out, emitted)
}
