//! Kani harnesses: tree-builder simulator (C03 clauses 2 and 3, C06 feedback, C15).
//! Child module of `parser::tree_builder_simulator`.
// @requires src/html/verif_kani.rs
use super::*;
use crate::html::LocalNameHash;

fn h(s: &str) -> LocalNameHash {
    LocalNameHash::from(s)
}

fn kind(f: &TreeBuilderFeedback) -> (u8, u8) {
    match f {
        TreeBuilderFeedback::None => (0, 0),
        TreeBuilderFeedback::SwitchTextType(t) => (
            1,
            match t {
                TextType::Data => 0,
                TextType::PlainText => 1,
                TextType::RCData => 2,
                TextType::RawText => 3,
                TextType::ScriptData => 4,
                TextType::CDataSection => 5,
            },
        ),
        TreeBuilderFeedback::SetAllowCdata(b) => (2, *b as u8),
        TreeBuilderFeedback::RequestLexeme(_) => (3, 0),
    }
}

/// C03 clause 3: the text-mode table, for EVERY 64-bit tag-name hash: textarea,title → RCDATA;
/// plaintext → PLAINTEXT; script → script data; style, iframe, xmp, noembed, noframes, noscript →
/// RAWTEXT; everything else → no switch. The reference hashes are computed from the names.
// @verif props=C03,C15 fns=get_text_type_adjustment
#[kani::proof]
#[kani::unwind(12)]
fn c03_text_mode_table_for_every_hash() {
    let t = crate::html::verif_kani::full_hash();
    let got = kind(&get_text_type_adjustment(t));
    let want = if t == h("textarea") || t == h("title") {
        (1, 2)
    } else if t == h("plaintext") {
        (1, 1)
    } else if t == h("script") {
        (1, 4)
    } else if t == h("style") || t == h("iframe") || t == h("xmp") || t == h("noembed") || t == h("noframes") || t == h("noscript") {
        (1, 3)
    } else {
        (0, 0)
    };
    assert!(got == want);
    kani::cover!(got == (1, 3) && t == h("noembed"));
    kani::cover!(got == (0, 0));
}

fn pick_tag() -> LocalNameHash {
    let k: u8 = kani::any();
    match k % 12 {
        0 => h("svg"),
        1 => h("math"),
        2 => h("p"),
        3 => h("title"),
        4 => h("desc"),
        5 => h("mi"),
        6 => h("font"),
        7 => h("script"),
        8 => h("select"),
        9 => h("textarea"),
        10 => h("foreignobject"),
        _ => {
            let mut x = LocalNameHash::new();
            x.update(kani::any());
            x.update(kani::any());
            x
        }
    }
}

/// C03 clause 2: a strict run that succeeds is identical to the non-strict run — for two tag events
/// (start/end, names from the namespace- and text-mode-relevant set or arbitrary short names) from
/// the initial simulator state, strict mode either refuses or returns the same feedback and leaves the
/// same namespace stack.
// @verif props=C03,C06,C15 fns=TreeBuilderSimulator::get_feedback_for_start_tag,TreeBuilderSimulator::get_feedback_for_end_tag quick=C03,C06
#[kani::proof]
#[kani::unwind(16)]
fn c03_strict_success_equals_non_strict() {
    let mut a = TreeBuilderSimulator::new(true);
    let mut b = TreeBuilderSimulator::new(false);
    let mut i = 0;
    while i < 2 {
        let t = pick_tag();
        let is_end: bool = kani::any();
        if is_end {
            let fa = a.get_feedback_for_end_tag(t);
            let fb = b.get_feedback_for_end_tag(t);
            assert!(kind(&fa) == kind(&fb));
            core::mem::forget(fa);
            core::mem::forget(fb);
        } else {
            let fb = b.get_feedback_for_start_tag(t);
            let fa = a.get_feedback_for_start_tag(t);
            assert!(fb.is_ok());
            match (&fa, &fb) {
                (Ok(x), Ok(y)) => assert!(kind(x) == kind(y)),
                (Err(_), _) => {
                    kani::cover!(i == 1);
                    core::mem::forget(fa);
                    core::mem::forget(fb);
                    core::mem::forget(a);
                    core::mem::forget(b);
                    return;
                }
                _ => assert!(false),
            }
            core::mem::forget(fa);
            core::mem::forget(fb);
        }
        assert!(a.current_ns == b.current_ns);
        assert!(a.ns_stack.len() == b.ns_stack.len());
        i += 1;
    }
    kani::cover!(a.current_ns == Namespace::Svg);
    kani::cover!(a.ns_stack.len() == 3);
    core::mem::forget(a);
    core::mem::forget(b);
}

/// A simulator in one of the namespace configurations real documents reach (used by the scanner step
/// harnesses so that tree-builder feedback requests are exercised): html | svg | math | math>html
/// (text integration point) | svg>html (html integration point).
pub(crate) fn sim_with_stack(k: u8) -> TreeBuilderSimulator {
    let mut s = TreeBuilderSimulator::new(false);
    let (a, b) = match k % 5 {
        0 => (None, None),
        1 => (Some(Namespace::Svg), None),
        2 => (Some(Namespace::MathML), None),
        3 => (Some(Namespace::MathML), Some(Namespace::Html)),
        _ => (Some(Namespace::Svg), Some(Namespace::Html)),
    };
    if let Some(ns) = a {
        s.ns_stack.push(ns);
        s.current_ns = ns;
    }
    if let Some(ns) = b {
        s.ns_stack.push(ns);
        s.current_ns = ns;
    }
    s
}
