//! Kani harnesses: strict-mode ambiguity guard vs a reference automaton written from the property
//! statement (C03 clause 1, C15). Child module of `parser::tree_builder_simulator::ambiguity_guard`.
use super::*;

#[derive(Copy, Clone, PartialEq, Eq)]
enum R {
    Default,
    InSelect,
    InTemplateInSelect(u64),
    Frameset,
}

fn h(s: &str) -> LocalNameHash {
    LocalNameHash::from(s)
}

/// text-mode-switching start tags (WHATWG: RCDATA, RAWTEXT, script data, PLAINTEXT elements)
fn switches_text_mode(t: LocalNameHash) -> bool {
    t == h("textarea") || t == h("title") || t == h("plaintext") || t == h("script") || t == h("style")
        || t == h("iframe") || t == h("xmp") || t == h("noembed") || t == h("noframes") || t == h("noscript")
}

/// Reference: strict mode fails only when a text-mode-switching start tag occurs inside select
/// (incl. template in select; <script> is allowed directly in select) or in/after frameset
/// (<noframes> is allowed there).
fn ref_start(s: R, t: LocalNameHash) -> Result<R, ()> {
    match s {
        R::Default => Ok(if t == h("select") {
            R::InSelect
        } else if t == h("frameset") {
            R::Frameset
        } else {
            R::Default
        }),
        R::InSelect => {
            if t == h("select") || t == h("textarea") || t == h("input") || t == h("keygen") {
                Ok(R::Default)
            } else if t == h("template") {
                Ok(R::InTemplateInSelect(1))
            } else if t != h("script") && switches_text_mode(t) {
                Err(())
            } else {
                Ok(R::InSelect)
            }
        }
        R::InTemplateInSelect(d) => {
            if t == h("template") {
                Ok(R::InTemplateInSelect(d + 1))
            } else if switches_text_mode(t) {
                Err(())
            } else {
                Ok(s)
            }
        }
        R::Frameset => {
            if t != h("noframes") && switches_text_mode(t) {
                Err(())
            } else {
                Ok(R::Frameset)
            }
        }
    }
}

fn ref_end(s: R, t: LocalNameHash) -> R {
    match s {
        R::InSelect if t == h("select") => R::Default,
        R::InTemplateInSelect(d) if t == h("template") => {
            if d == 1 { R::InSelect } else { R::InTemplateInSelect(d - 1) }
        }
        _ => s,
    }
}

fn to_impl(s: R) -> State {
    match s {
        R::Default => State::Default,
        R::InSelect => State::InSelect,
        R::InTemplateInSelect(d) => State::InTemplateInSelect(d),
        R::Frameset => State::InOrAfterFrameset,
    }
}

fn same(s: State, r: R) -> bool {
    match (s, r) {
        (State::Default, R::Default) => true,
        (State::InSelect, R::InSelect) => true,
        (State::InTemplateInSelect(a), R::InTemplateInSelect(b)) => a == b,
        (State::InOrAfterFrameset, R::Frameset) => true,
        _ => false,
    }
}

fn pick_tag() -> LocalNameHash {
    let k: u8 = kani::any();
    match k % 17 {
        0 => h("select"),
        1 => h("template"),
        2 => h("frameset"),
        3 => h("textarea"),
        4 => h("title"),
        5 => h("plaintext"),
        6 => h("script"),
        7 => h("style"),
        8 => h("iframe"),
        9 => h("xmp"),
        10 => h("noembed"),
        11 => h("noframes"),
        12 => h("noscript"),
        13 => h("input"),
        14 => h("keygen"),
        15 => h("div"),
        _ => {
            // some other name of <= 2 characters, or an unhashable name
            let mut x = LocalNameHash::new();
            x.update(kani::any());
            x.update(kani::any());
            x
        }
    }
}

fn any_ref_state() -> R {
    let k: u8 = kani::any();
    match k % 4 {
        0 => R::Default,
        1 => R::InSelect,
        2 => {
            let d: u64 = kani::any();
            // depth u64::MAX would need 2^64 nested <template> start tags
            kani::assume(d >= 1 && d < u64::MAX);
            R::InTemplateInSelect(d)
        }
        _ => R::Frameset,
    }
}

/// One event (start or end tag) from an arbitrary guard state: refusal and successor state agree
/// with the reference (inductive form: covers tag sequences of any length).
// @verif props=C03,C15 fns=AmbiguityGuard::track_start_tag,AmbiguityGuard::track_end_tag quick=C03
#[kani::proof]
#[kani::unwind(14)]
fn c03_ambiguity_guard_step_matches_reference() {
    let r0 = any_ref_state();
    let mut g = AmbiguityGuard { state: to_impl(r0) };
    let t = pick_tag();
    let is_end: bool = kani::any();
    if is_end {
        g.track_end_tag(t);
        assert!(same(g.state, ref_end(r0, t)));
        kani::cover!(r0 == R::InTemplateInSelect(1) && matches!(g.state, State::InSelect));
    } else {
        let res = g.track_start_tag(t);
        match ref_start(r0, t) {
            Ok(r1) => {
                assert!(res.is_ok());
                assert!(same(g.state, r1));
            }
            Err(()) => {
                assert!(res.is_err());
                kani::cover!(r0 == R::Frameset);
                kani::cover!(matches!(r0, R::InTemplateInSelect(_)) && t == h("script"));
            }
        }
        kani::cover!(res.is_ok() && r0 == R::InSelect && t == h("script"));
        kani::cover!(res.is_ok() && r0 == R::Frameset && t == h("noframes"));
        core::mem::forget(res);
    }
}
