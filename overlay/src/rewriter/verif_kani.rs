//! Kani harnesses: fail-stop behaviour of HtmlRewriter (C12: after an error further use panics instead of
//! producing output; C15: the documented panic is the only one). Child module of `rewriter`.
use super::*;

struct NullSink;
impl OutputSink for NullSink {
    fn handle_chunk(&mut self, _c: &[u8]) {}
}

fn rewriter(limit: usize) -> HtmlRewriter<'static, NullSink> {
    HtmlRewriter::new(
        Settings::new().with_memory_settings(MemorySettings::new().with_max_allowed_memory_usage(limit).with_preallocated_parsing_buffer_size(0)),
        NullSink,
    )
}

/// A write that fails (here: the unfinished tag "<a" cannot be buffered under a zero memory limit)
/// returns the error and poisons the rewriter; a write that succeeds does not.
// @verif props=C12,C10,C15 fns=HtmlRewriter::write,guarded
#[kani::proof]
#[kani::unwind(12)]
fn c12_failed_write_poisons_the_rewriter() {
    let fail: bool = kani::any();
    let mut rw = rewriter(if fail { 0 } else { 64 });
    assert!(!rw.poisoned);
    let r = rw.write(b"x<a");
    assert!(r.is_err() == fail);
    assert!(rw.poisoned == fail, "[C12] an error from write() poisons the rewriter");
    kani::cover!(fail);
    kani::cover!(!fail);
    core::mem::forget(r);
    core::mem::forget(rw);
}

/// Any use of a poisoned rewriter panics — also a zero-length write.
// @verif props=C12,C15 fns=HtmlRewriter::write,guarded expect=panic
#[kani::proof]
#[kani::unwind(12)]
#[kani::should_panic]
fn c12_empty_write_on_poisoned_rewriter_panics() {
    let mut rw = rewriter(64);
    rw.poisoned = true;
    let r = rw.write(b"");
    core::mem::forget(r);
    core::mem::forget(rw);
}

// @verif props=C12,C15 fns=HtmlRewriter::write,guarded expect=panic
#[kani::proof]
#[kani::unwind(12)]
#[kani::should_panic]
fn c12_write_on_poisoned_rewriter_panics() {
    let mut rw = rewriter(64);
    rw.poisoned = true;
    let r = rw.write(b"ab");
    core::mem::forget(r);
    core::mem::forget(rw);
}

// @verif props=C12,C15 fns=HtmlRewriter::end,guarded expect=panic
#[kani::proof]
#[kani::unwind(12)]
#[kani::should_panic]
fn c12_end_on_poisoned_rewriter_panics() {
    let mut rw = rewriter(64);
    rw.poisoned = true;
    let r = rw.end();
    core::mem::forget(r);
}
