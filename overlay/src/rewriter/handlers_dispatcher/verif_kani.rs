//! Kani harnesses: handler vectors and selector-scoped activation counting (C05, C15).
//! Child module of `rewriter::handlers_dispatcher`. Instantiation: HandlerVec<u8> (the handler
//! payload is its registration index) and ContentHandlersDispatcher<VH> with plain fn-pointer handlers.
use super::*;
use crate::rewritable_units::{Comment, Doctype, EndTag, TextChunk};
use crate::rewriter::RewritingError;
use crate::selectors_vm::DenseHashSet;

fn sum(v: &HandlerVec<u8>) -> u32 {
    let mut s = 0;
    let mut i = 0;
    while i < v.items.len() {
        s += v.items[i].user_count;
        i += 1;
    }
    s
}

fn vec3(c0: u32, c1: u32, c2: u32) -> HandlerVec<u8> {
    let mut v: HandlerVec<u8> = HandlerVec::default();
    v.items = Vec::from([
        HandlerVecItem { handler: 0u8, user_count: c0 },
        HandlerVecItem { handler: 1u8, user_count: c1 },
        HandlerVecItem { handler: 2u8, user_count: c2 },
    ]);
    v.user_count = c0 + c1 + c2;
    v
}

fn small_counts() -> (u32, u32, u32) {
    let c0: u32 = kani::any();
    let c1: u32 = kani::any();
    let c2: u32 = kani::any();
    kani::assume(c0 <= 3 && c1 <= 3 && c2 <= 3);
    (c0, c1, c2)
}

/// user_count == Σ item.user_count under 3 arbitrary operations (push/inc/dec/deactivate/iterate).
// @verif props=C05,C15 fns=HandlerVec::push,HandlerVec::inc_user_count,HandlerVec::dec_user_count,HandlerVec::do_for_each_active_and_deactivate
#[kani::proof]
#[kani::unwind(5)]
fn c05_handler_vec_counts_consistent() {
    let mut v: HandlerVec<u8> = HandlerVec::default();
    let a = v.push(0, kani::any()).unwrap();
    let b = v.push(1, kani::any()).unwrap();
    let c = v.push(2, false).unwrap();
    assert!(a.get() == 1 && b.get() == 2 && c.get() == 3);
    assert!(sum(&v) == v.user_count);
    let mut step = 0;
    while step < 3 {
        let op: u8 = kani::any();
        let which: u8 = kani::any();
        let loc = if which == 0 { a } else if which == 1 { b } else { c };
        match op {
            0 => v.inc_user_count(loc),
            1 => {
                if v.items[locator_to_idx(loc)].user_count > 0 {
                    v.dec_user_count(loc)
                }
            }
            2 => {
                let mut active_before = 0;
                let mut i = 0;
                while i < 3 {
                    if v.items[i].user_count > 0 {
                        active_before += 1;
                    }
                    i += 1;
                }
                let mut n = 0;
                let _ = v.do_for_each_active_and_deactivate(|_| {
                    n += 1;
                    Ok(())
                });
                assert!(n == active_before);
                assert!(v.user_count == 0);
            }
            _ => {
                let _ = v.for_each_active(|_| Ok(()));
            }
        }
        assert!(sum(&v) == v.user_count);
        assert!(v.has_active() == (sum(&v) > 0));
        step += 1;
    }
    kani::cover!(v.user_count == 3);
    core::mem::forget(v);
}

/// for_each_active / do_for_each_active_and_deactivate call exactly the active handlers, each once,
/// in registration order; the latter leaves every handler inactive (element handlers fire once per match).
// @verif props=C05,C15 fns=HandlerVec::for_each_active,HandlerVec::do_for_each_active_and_deactivate
#[kani::proof]
#[kani::unwind(5)]
fn c05_active_handlers_called_once_in_registration_order() {
    let (c0, c1, c2) = small_counts();
    let mut v = vec3(c0, c1, c2);
    let deactivate: bool = kani::any();
    let mut calls = [9u8; 4];
    let mut n = 0usize;
    let r = if deactivate {
        v.do_for_each_active_and_deactivate(|h| {
            calls[n] = *h;
            n += 1;
            Ok(())
        })
    } else {
        v.for_each_active(|h| {
            calls[n] = *h;
            n += 1;
            Ok(())
        })
    };
    assert!(r.is_ok());
    let want = [c0 > 0, c1 > 0, c2 > 0];
    let mut k = 0usize;
    let mut i = 0usize;
    while i < 3 {
        if want[i] {
            assert!(calls[k] == i as u8);
            k += 1;
        }
        i += 1;
    }
    assert!(n == k);
    if deactivate {
        assert!(v.user_count == 0 && sum(&v) == 0);
    } else {
        assert!(v.user_count == c0 + c1 + c2 && sum(&v) == v.user_count);
    }
    kani::cover!(n == 3);
    kani::cover!(n == 1 && c1 > 0);
    core::mem::forget(v);
}

/// A failing handler stops the iteration; handlers after it are not called, and the ones already
/// called by do_for_each_active_and_deactivate stay deactivated (no double delivery on a later token).
// @verif props=C05,C11,C15 fns=HandlerVec::do_for_each_active_and_deactivate
#[kani::proof]
#[kani::unwind(5)]
fn c05_failing_handler_stops_iteration() {
    let (c0, c1, c2) = small_counts();
    let mut v = vec3(c0, c1, c2);
    let fail_at: u8 = kani::any();
    kani::assume(fail_at < 3);
    let mut called = [false; 3];
    let r = v.do_for_each_active_and_deactivate(|h| {
        called[*h as usize] = true;
        if *h == fail_at {
            Err("x".into())
        } else {
            Ok(())
        }
    });
    let counts = [c0, c1, c2];
    let fa = fail_at as usize;
    if counts[fa] > 0 {
        assert!(r.is_err());
        let mut i = 0;
        while i < 3 {
            assert!(called[i] == (counts[i] > 0 && i <= fa));
            if i < fa {
                assert!(v.items[i].user_count == 0);
            }
            if i > fa {
                assert!(v.items[i].user_count == counts[i]);
            }
            i += 1;
        }
        kani::cover!(fa == 1 && c0 > 0 && c2 > 0);
    } else {
        assert!(r.is_ok());
    }
    core::mem::forget(r);
    core::mem::forget(v);
}

/// One-shot handlers (end-tag handlers, end handlers): do_for_each_active_and_remove_tail calls exactly
/// the handlers with user_count > 0, each once, never touches a handler before the first active one,
/// and leaves no active handler behind.
// @verif props=C05,C15 fns=HandlerVec::do_for_each_active_and_remove_tail
#[kani::proof]
#[kani::unwind(5)]
fn c05_one_shot_handlers_removed_after_call() {
    let (c0, c1, c2) = small_counts();
    let mut v = vec3(c0, c1, c2);
    let mut called = [0u8; 3];
    let mut order = [9u8; 3];
    let mut n = 0usize;
    let r = v.do_for_each_active_and_remove_tail(|h| {
        called[h as usize] += 1;
        order[n] = h;
        n += 1;
        Ok(())
    });
    assert!(r.is_ok());
    let counts = [c0, c1, c2];
    let mut i = 0;
    let mut first_active = 3usize;
    while i < 3 {
        assert!(called[i] == if counts[i] > 0 { 1 } else { 0 });
        if counts[i] > 0 && first_active == 3 {
            first_active = i;
        }
        i += 1;
    }
    assert!(v.user_count == 0);
    assert!(v.items.len() == first_active);
    assert!(sum(&v) == 0);
    // inner (later registered) elements' handlers run first: reverse registration order
    if n >= 2 {
        assert!(order[0] > order[1]);
    }
    if n == 3 {
        assert!(order[1] > order[2]);
    }
    kani::cover!(n == 2 && first_active == 1);
    kani::cover!(n == 0);
    core::mem::forget(v);
}

// ---- ContentHandlersDispatcher with fn-pointer handler types --------------------------------

pub(crate) struct VH;

fn h_doctype(_: &mut Doctype<'_>) -> HandlerResult { Ok(()) }
fn h_comment(_: &mut Comment<'_>) -> HandlerResult { Ok(()) }
fn h_text(_: &mut TextChunk<'_>) -> HandlerResult { Ok(()) }
fn h_element(_: &mut Element<'_, '_, VH>) -> HandlerResult { Ok(()) }
fn h_end(_: &mut DocumentEnd<'_>) -> HandlerResult { Ok(()) }

impl HandlerTypes for VH {
    type DoctypeHandler<'h> = fn(&mut Doctype<'_>) -> HandlerResult;
    type CommentHandler<'h> = fn(&mut Comment<'_>) -> HandlerResult;
    type TextHandler<'h> = fn(&mut TextChunk<'_>) -> HandlerResult;
    type ElementHandler<'h> = fn(&mut Element<'_, '_, VH>) -> HandlerResult;
    type EndTagHandler<'h> = fn(&mut EndTag<'_>) -> HandlerResult;
    type EndHandler<'h> = fn(&mut DocumentEnd<'_>) -> HandlerResult;
    type BailOutHandler<'h> = fn(&RewritingError, &mut crate::rewritable_units::BailOut<'_>);

    fn new_end_tag_handler<'h>(_h: impl IntoHandler<EndTagHandlerSend<'h>>) -> Self::EndTagHandler<'h> {
        unimplemented!()
    }
    fn new_element_handler<'h>(_h: impl IntoHandler<ElementHandlerSend<'h, Self>>) -> Self::ElementHandler<'h> {
        unimplemented!()
    }
    fn combine_handlers(_h: Vec<Self::EndTagHandler<'_>>) -> Self::EndTagHandler<'_> {
        unimplemented!()
    }
}

fn count_of<T>(v: &HandlerVec<T>, loc: Option<Locator>) -> u32 {
    match loc {
        Some(l) => v.items[locator_to_idx(l)].user_count,
        None => 0,
    }
}

/// Scope counting: a match with content activates exactly that selector's comment/text/element
/// handlers; closing the element (stop_matching with its matched ids) restores the comment/text counts;
/// a match without content (void element) activates only the element handler. Capture-flag bits say
/// exactly which handler classes have an active handler. Two selectors with symbolic handler sets and
/// symbolic document-level handlers.
// @verif props=C05,C15 fns=ContentHandlersDispatcher::start_matching,ContentHandlersDispatcher::stop_matching,ContentHandlersDispatcher::get_token_capture_flags,ContentHandlersDispatcher::add_selector_associated_handlers,ContentHandlersDispatcher::add_document_content_handlers
fn scope_counting_case(has: [bool; 6], doc: [bool; 4]) {
    let mut d = ContentHandlersDispatcher::<VH>::default();
    let m0 = d.add_selector_associated_handlers(ElementContentHandlers {
        element: if has[0] { Some(h_element as _) } else { None },
        comments: if has[1] { Some(h_comment as _) } else { None },
        text: if has[2] { Some(h_text as _) } else { None },
    });
    let m1 = d.add_selector_associated_handlers(ElementContentHandlers {
        element: if has[3] { Some(h_element as _) } else { None },
        comments: if has[4] { Some(h_comment as _) } else { None },
        text: if has[5] { Some(h_text as _) } else { None },
    });
    assert!(m0 == 0 && m1 == 1);
    d.add_document_content_handlers(DocumentContentHandlers {
        doctype: if doc[0] { Some(h_doctype as _) } else { None },
        comments: if doc[1] { Some(h_comment as _) } else { None },
        text: if doc[2] { Some(h_text as _) } else { None },
        end: if doc[3] { Some(h_end as _) } else { None },
    });
    // selector-scoped handlers were registered before document-level ones => they come first
    if has[1] && doc[1] {
        assert!(d.comment_handlers.items.len() >= 2);
        assert!(d.comment_handlers.items[d.comment_handlers.items.len() - 1].user_count == 1);
        assert!(d.comment_handlers.items[0].user_count == 0);
    }
    let f0 = d.get_token_capture_flags();
    assert!(f0.contains(TokenCaptureFlags::DOCTYPES) == doc[0]);
    assert!(f0.contains(TokenCaptureFlags::COMMENTS) == doc[1]);
    assert!(f0.contains(TokenCaptureFlags::TEXT) == doc[2]);
    assert!(!f0.contains(TokenCaptureFlags::NEXT_START_TAG));
    assert!(!f0.contains(TokenCaptureFlags::NEXT_END_TAG));

    let which: bool = kani::any();
    let with_content: bool = kani::any();
    let mid = if which { m1 } else { m0 };
    let off = if which { 3 } else { 0 };
    d.start_matching(&MatchInfo { match_id: mid, with_content });
    let f1 = d.get_token_capture_flags();
    assert!(f1.contains(TokenCaptureFlags::NEXT_START_TAG) == has[off]);
    assert!(f1.contains(TokenCaptureFlags::COMMENTS) == (doc[1] || (with_content && has[off + 1])));
    assert!(f1.contains(TokenCaptureFlags::TEXT) == (doc[2] || (with_content && has[off + 2])));
    assert!(d.next_element_can_have_content == with_content);
    let loc = d.locators[mid as usize];
    assert!(count_of(&d.comment_handlers, loc.comment_handler_idx) == if with_content && has[off + 1] { 1 } else { 0 });
    assert!(count_of(&d.text_handlers, loc.text_handler_idx) == if with_content && has[off + 2] { 1 } else { 0 });
    // the other selector's handlers stay inactive
    let other = d.locators[(1 - mid) as usize];
    assert!(count_of(&d.comment_handlers, other.comment_handler_idx) == 0);
    assert!(count_of(&d.text_handlers, other.text_handler_idx) == 0);
    assert!(count_of(&d.element_handlers, other.element_handler_idx) == 0);

    if with_content {
        // the element is closed: the VM hands back the ids matched with content
        let set = DenseHashSet::Inline(1u32 << mid);
        d.stop_matching(ElementDescriptor { matched_content_handlers: set, end_tag_handler_idx: None, remove_content: false });
        let f2 = d.get_token_capture_flags();
        assert!(f2.contains(TokenCaptureFlags::COMMENTS) == doc[1]);
        assert!(f2.contains(TokenCaptureFlags::TEXT) == doc[2]);
        assert!(count_of(&d.comment_handlers, loc.comment_handler_idx) == 0);
        assert!(count_of(&d.text_handlers, loc.text_handler_idx) == 0);
        kani::cover!(which);
    }
    kani::cover!(!with_content && !which);
    core::mem::forget(d);
}

// The registered handler configuration is concrete per harness (a symbolic configuration makes every
// Vec length symbolic and CBMC runs out of memory); which selector matches and whether the match has
// content stay symbolic.
#[kani::proof]
#[kani::unwind(5)]
fn c05_scope_counting_all_handlers() {
    scope_counting_case([true; 6], [true; 4]);
}

#[kani::proof]
#[kani::unwind(5)]
fn c05_scope_counting_selector_handlers_only() {
    scope_counting_case([true; 6], [false; 4]);
}

#[kani::proof]
#[kani::unwind(5)]
fn c05_scope_counting_split_handlers() {
    // selector 0: element only; selector 1: comments + text only; document: text + end
    scope_counting_case([true, false, false, false, true, true], [false, false, true, true]);
}

#[kani::proof]
#[kani::unwind(5)]
fn c05_scope_counting_text_vs_comments() {
    // selector 0: text only; selector 1: comments + element; document: doctype + comments
    scope_counting_case([false, false, true, true, true, false], [true, true, false, false]);
}

/// An end-tag handler attached to an element becomes active only when that element is closed
/// (stop_matching with its locator), is then reported by NEXT_END_TAG, runs once and is gone.
// @verif props=C05,C15 fns=ContentHandlersDispatcher::stop_matching,HandlerVec::do_for_each_active_and_remove_tail
#[kani::proof]
#[kani::unwind(5)]
fn c05_end_tag_handler_armed_only_by_its_elements_close() {
    fn h_end_tag(_: &mut EndTag<'_>) -> HandlerResult { Ok(()) }
    let mut d = ContentHandlersDispatcher::<VH>::default();
    let l0 = d.end_tag_handlers.push(h_end_tag as _, false).unwrap();
    let l1 = d.end_tag_handlers.push(h_end_tag as _, false).unwrap();
    assert!(!d.get_token_capture_flags().contains(TokenCaptureFlags::NEXT_END_TAG));
    let close_inner_only: bool = kani::any();
    d.stop_matching(ElementDescriptor { matched_content_handlers: DenseHashSet::new(), end_tag_handler_idx: Some(l1), remove_content: false });
    if !close_inner_only {
        d.stop_matching(ElementDescriptor { matched_content_handlers: DenseHashSet::new(), end_tag_handler_idx: Some(l0), remove_content: false });
    }
    assert!(d.get_token_capture_flags().contains(TokenCaptureFlags::NEXT_END_TAG));
    let mut n = 0;
    let r = d.end_tag_handlers.do_for_each_active_and_remove_tail(|_| {
        n += 1;
        Ok(())
    });
    assert!(r.is_ok());
    assert!(n == if close_inner_only { 1 } else { 2 });
    // the outer element's handler (still open) survives with its locator intact
    assert!(d.end_tag_handlers.items.len() == if close_inner_only { 1 } else { 0 });
    assert!(!d.get_token_capture_flags().contains(TokenCaptureFlags::NEXT_END_TAG));
    kani::cover!(close_inner_only);
    core::mem::forget(d);
}
