//! Kani harnesses: SharedMemoryLimiter (C10, C15). Child module of `memory::limiter`.
use super::*;

// ---- limiter -------------------------------------------------------------------------------

/// C10: `increase_usage` fails iff the accounted usage would exceed `max` (symbolic max),
/// for two successive requests of arbitrary realistic size.
#[kani::proof]
fn c10_limiter_increase_fails_iff_over_max() {
    let max: usize = kani::any();
    let a: usize = kani::any();
    let b: usize = kani::any();
    // real allocation sizes never exceed isize::MAX; two of them cannot wrap usize
    kani::assume(a <= (isize::MAX as usize) / 2 && b <= (isize::MAX as usize) / 2);
    let l = SharedMemoryLimiter::new(max);
    let r1 = l.increase_usage(a);
    assert!(r1.is_ok() == (a <= max));
    let r2 = l.increase_usage(b);
    assert!(r2.is_ok() == (a + b <= max));
    kani::cover!(r1.is_ok() && r2.is_err());
    kani::cover!(r1.is_ok() && r2.is_ok() && a > 0 && b > 0);
}

/// C10: decrease after increase restores the budget exactly.
#[kani::proof]
fn c10_limiter_decrease_restores_budget() {
    let max: usize = kani::any();
    let a: usize = kani::any();
    let b: usize = kani::any();
    kani::assume(a <= (isize::MAX as usize) / 2 && b <= (isize::MAX as usize) / 2);
    let l = SharedMemoryLimiter::new(max);
    if l.increase_usage(a).is_ok() {
        l.decrease_usage(a);
        let r = l.increase_usage(b);
        assert!(r.is_ok() == (b <= max));
        kani::cover!(r.is_ok() && b > 0 && a > 0);
    }
}

