//! Re-export of a harness helper that lives in the private module `memory::arena`.
// @requires src/memory/arena/verif_kani.rs
#![allow(unused_imports)]
pub(crate) use super::arena::verif_kani::arena_holding2;
