//! Kani harnesses: LimitedVec (C10, C15). Child module of `memory::limited_vec`.
use super::*;

// ---- limited vec ---------------------------------------------------------------------------

fn limited_vec_script<T: Copy>(v0: T) {
    let max: usize = kani::any();
    let limiter = SharedMemoryLimiter::new(max);
    let sz = core::mem::size_of::<T>();
    let min_cap = { let items = 128 / sz; if items >= 8 { items } else { 8 } };
    let mut v = LimitedVec::<T>::new(limiter.clone());
    let r = v.push(v0);
    // first push charges min_capacity * size_of::<T>() bytes
    assert!(r.is_ok() == (min_cap * sz <= max));
    if r.is_ok() {
        assert!(v.len() == 1);
        assert!(v.vec.capacity() * sz <= max);
        // pushes within capacity never fail and never charge
        let r2 = v.push(v0);
        assert!(r2.is_ok());
        assert!(v.len() == 2);
        kani::cover!(true);
    }
    // Drop returns what was charged for capacity: a second vector on the same limiter can
    // then use the whole budget again
    let cap_bytes = v.vec.capacity() * sz;
    drop(v);
    let mut w = LimitedVec::<T>::new(limiter.clone());
    let r3 = w.push(v0);
    if r.is_ok() {
        assert!(r3.is_ok());
    }
    let _ = cap_bytes;
    core::mem::forget(w);
}

#[kani::proof]
#[kani::unwind(4)]
fn c10_limited_vec_u8() {
    limited_vec_script::<u8>(kani::any());
}

#[kani::proof]
#[kani::unwind(4)]
fn c10_limited_vec_u64() {
    limited_vec_script::<u64>(kani::any());
}

#[kani::proof]
#[kani::unwind(4)]
fn c10_limited_vec_7() {
    limited_vec_script::<[u8; 7]>(kani::any());
}

#[kani::proof]
#[kani::unwind(4)]
fn c10_limited_vec_stackitem_sized() {
    // same size class as selectors_vm::StackItem<ElementDescriptor> (> 128 bytes => min capacity 8)
    limited_vec_script::<[u64; 24]>(kani::any());
}

/// C10: one growth step from an injected full vector (len == capacity == 8, 128 bytes charged):
/// growth doubles, is charged *before* reserving, fails iff the doubled capacity exceeds the limit,
/// and a failed growth leaves the vector unchanged.
// @verif props=C10,C15 fns=LimitedVec::push
#[kani::proof]
#[kani::unwind(10)]
fn c10_limited_vec_growth_charged() {
    let max: usize = kani::any();
    let limiter = SharedMemoryLimiter::new(max);
    let mut v = LimitedVec::<[u8; 16]>::new(limiter.clone());
    let init: [[u8; 16]; 8] = kani::any();
    v.vec = Vec::from(init);
    kani::assume(v.vec.capacity() == 8);
    let charged_before = limiter.increase_usage(8 * 16).is_ok();
    let x: [u8; 16] = kani::any();
    let r = v.push(x);
    if r.is_ok() {
        assert!(charged_before);
        assert!(v.len() == 9 && v.vec.capacity() == 16);
        assert!(max >= 256);
        assert!(v[8][0] == x[0] && v[0][3] == init[0][3] && v[7][15] == init[7][15]);
        kani::cover!(max == 256);
    } else {
        assert!(max < 256);
        assert!(v.len() == 8 && v.vec.capacity() == 8);
        assert!(v[7][15] == init[7][15]);
        kani::cover!(max == 255);
    }
    core::mem::forget(v);
}

/// C10: the *second* doubling (capacity 16 -> 32, 16-byte elements): the charge is the number of
/// elements actually reserved (16 * 16 = 256 bytes), not the minimum capacity.
// @verif props=C10,C15 fns=LimitedVec::push
#[kani::proof]
#[kani::unwind(18)]
fn c10_limited_vec_second_growth_charged() {
    let max: usize = kani::any();
    let limiter = SharedMemoryLimiter::new(max);
    let mut v = LimitedVec::<[u8; 16]>::new(limiter.clone());
    let init: [[u8; 16]; 16] = kani::any();
    v.vec = Vec::from(init);
    kani::assume(v.vec.capacity() == 16);
    let charged_before = limiter.increase_usage(16 * 16).is_ok();
    let x: [u8; 16] = kani::any();
    let r = v.push(x);
    if r.is_ok() {
        assert!(charged_before);
        assert!(v.len() == 17 && v.vec.capacity() == 32);
        assert!(max >= 512);
        kani::cover!(max == 512);
    } else {
        assert!(max < 512);
        assert!(v.len() == 16 && v.vec.capacity() == 16);
        kani::cover!(max == 511);
    }
    core::mem::forget(v);
}
