//! Kani harnesses: Arena (C01 carry-over, C10, C11 memory sites, C15). Child module of `memory::arena`.
use super::*;

// ---- arena ---------------------------------------------------------------------------------

const AN: usize = 4;

fn same(a: &[u8], b: &[u8]) -> bool {
    if a.len() != b.len() {
        return false;
    }
    let mut i = 0;
    while i < a.len() {
        if a[i] != b[i] {
            return false;
        }
        i += 1;
    }
    true
}

/// C01-4 / C10 / C11: append, append: contents are the concatenation, charged ≤ max, and a
/// failing append leaves the buffered bytes intact.
// @verif props=C10,C01,C11,C15 fns=Arena::append,Arena::new
#[kani::proof]
#[kani::unwind(10)]
fn c10_arena_append_append() {
    let max: usize = kani::any();
    let pre: usize = kani::any();
    kani::assume(pre <= AN && pre <= max);
    let limiter = SharedMemoryLimiter::new(max);
    let mut arena = Arena::new(limiter.clone(), pre);
    let buf: [u8; 2 * AN] = kani::any();
    let n1: usize = kani::any();
    let n2: usize = kani::any();
    kani::assume(n1 <= AN && n2 <= AN);
    let r1 = arena.append(&buf[..n1]);
    if r1.is_ok() {
        assert!(same(arena.bytes(), &buf[..n1]));
        assert!(arena.data.capacity() <= max);
        let r2 = arena.append(&buf[n1..n1 + n2]);
        if r2.is_ok() {
            assert!(same(arena.bytes(), &buf[..n1 + n2]));
            assert!(arena.data.capacity() <= max);
            assert!(arena.bytes().len() <= max);
            kani::cover!(n1 > 0 && n2 > 0 && n1 + n2 > pre);
        } else {
            // C11 memory site: the buffered tail survives a failed append
            assert!(same(arena.bytes(), &buf[..n1]));
            kani::cover!(n1 > 0);
        }
    } else {
        assert!(arena.bytes().is_empty());
        assert!(n1 > max || n1 > pre);
        kani::cover!(true);
    }
    // the budget is honoured: an append that fits the remaining budget cannot fail
    core::mem::forget(arena);
}

/// C10: an append that fits into `max` when nothing else was charged succeeds (no spurious
/// failure) and one that cannot fit fails.
#[kani::proof]
#[kani::unwind(10)]
fn c10_arena_append_exact_budget() {
    let max: usize = kani::any();
    let limiter = SharedMemoryLimiter::new(max);
    let mut arena = Arena::new(limiter.clone(), 0);
    let buf: [u8; AN] = kani::any();
    let n: usize = kani::any();
    kani::assume(n <= AN);
    let r = arena.append(&buf[..n]);
    assert!(r.is_ok() == (n <= max));
    kani::cover!(r.is_ok() && n == max && n > 0);
    kani::cover!(r.is_err());
    core::mem::forget(arena);
}

/// C01-4: shift(c) drops exactly the first c bytes (3 buffered bytes, every c).
// @verif props=C10,C01,C15 fns=Arena::shift
#[kani::proof]
#[kani::unwind(6)]
fn c10_arena_shift() {
    let limiter = SharedMemoryLimiter::new(64);
    let mut arena = Arena::new(limiter.clone(), 0);
    let buf: [u8; 3] = kani::any();
    let c: usize = kani::any();
    kani::assume(c <= 3);
    arena.data = Vec::from(buf);
    arena.shift(c);
    assert!(same(arena.bytes(), &buf[c..]));
    kani::cover!(c > 0 && c < 3);
    kani::cover!(c == 3);
    core::mem::forget(arena);
}

/// C01-4 / C11: init_with(t) replaces the contents; on failure nothing of the new slice is visible.
// @verif props=C10,C01,C11,C15 fns=Arena::init_with
#[kani::proof]
#[kani::unwind(10)]
fn c10_arena_init_with() {
    let max: usize = kani::any();
    let limiter = SharedMemoryLimiter::new(max);
    let mut arena = Arena::new(limiter.clone(), 0);
    let buf: [u8; AN] = kani::any();
    let n: usize = kani::any();
    kani::assume(n <= AN);
    if arena.append(&buf[..n]).is_ok() {
        let t: [u8; AN] = kani::any();
        let m: usize = kani::any();
        kani::assume(m <= AN);
        let r = arena.init_with(&t[..m]);
        if r.is_ok() {
            assert!(same(arena.bytes(), &t[..m]));
            assert!(arena.data.capacity() <= max);
            kani::cover!(m > n);
        } else {
            assert!(m > n);
            kani::cover!(true);
        }
    }
    core::mem::forget(arena);
}

/// C10 monotonicity: the same two-append script under limits M <= M2: success under M
/// implies success under M2 with identical contents.
#[kani::proof]
#[kani::unwind(10)]
fn c10_arena_monotone_in_limit() {
    let m1: usize = kani::any();
    let m2: usize = kani::any();
    kani::assume(m1 <= m2);
    let pre: usize = kani::any();
    kani::assume(pre <= AN && pre <= m1);
    let mut a1 = Arena::new(SharedMemoryLimiter::new(m1), pre);
    let mut a2 = Arena::new(SharedMemoryLimiter::new(m2), pre);
    let buf: [u8; 2 * AN] = kani::any();
    let n1: usize = kani::any();
    let n2: usize = kani::any();
    kani::assume(n1 <= AN && n2 <= AN);
    let r1a = a1.append(&buf[..n1]);
    let r2a = a2.append(&buf[..n1]);
    if r1a.is_ok() {
        assert!(r2a.is_ok());
        let r1b = a1.append(&buf[n1..n1 + n2]);
        let r2b = a2.append(&buf[n1..n1 + n2]);
        if r1b.is_ok() {
            assert!(r2b.is_ok());
            assert!(same(a1.bytes(), a2.bytes()));
            kani::cover!(n1 + n2 > pre && m1 < m2);
        }
    }
    kani::cover!(r1a.is_err() && r2a.is_ok());
    core::mem::forget(a1);
    core::mem::forget(a2);
}


/// helper for harnesses of other modules: an arena that already holds two buffered bytes (state injected,
/// contents stay concrete for the solver) with its two bytes charged to the limiter
pub(crate) fn arena_holding2(limiter: SharedMemoryLimiter, bytes: [u8; 2]) -> Arena {
    let mut a = Arena::new(limiter.clone(), 0);
    let _ = limiter.increase_usage(2);
    a.data = Vec::from(bytes);
    a
}
