"""Parser of lol-html's tokenizer state-machine DSL (src/parser/state_machine/syntax/**/*.rs).

Produces, per state: name, group (DSL group macro), file, attrs, enter action list, arms.
An arm = {pat: {...}, body: node}; a body node is either
  {"kind": "seq", "actions": [{"name","try","args"}], "transition": T|None}
  {"kind": "if", "cond": name, "then": node, "else": node}
T = {"kind": "to"|"inline"|"reconsume"|"dyn", "target": name}
"""
import glob
import os
import re


class DslError(Exception):
    pass


TOK = re.compile(r"""
    (?P<ws>\s+)
  | (?P<comment>//[^\n]*)
  | (?P<byte>b'(?:\\.[^']*|[^'\\])')
  | (?P<str>"[^"]*")
  | (?P<arrow>-->|<--|=>)
  | (?P<id>[A-Za-z_][A-Za-z0-9_]*!?)
  | (?P<num>\d+)
  | (?P<punct>\#\[|[{}()\[\];,?=!.:|&*<>+\-/^'])
""", re.X)


def tokenize(text):
    toks = []
    i = 0
    while i < len(text):
        m = TOK.match(text, i)
        if not m:
            raise DslError("cannot tokenize at %r" % text[i:i + 30])
        i = m.end()
        k = m.lastgroup
        if k in ("ws", "comment"):
            continue
        toks.append((k, m.group(k)))
    return toks


class P:
    def __init__(self, toks, fname):
        self.t = toks
        self.i = 0
        self.fname = fname

    def peek(self, off=0):
        return self.t[self.i + off] if self.i + off < len(self.t) else ("eof", "")

    def next(self):
        tok = self.peek()
        self.i += 1
        return tok

    def expect(self, val):
        tok = self.next()
        if tok[1] != val:
            raise DslError("%s: expected %r got %r (token %d)" % (self.fname, val, tok[1], self.i))
        return tok

    def skip_attr(self):
        # `#[` already seen as one token; skip to matching ]
        depth = 1
        text = []
        while depth:
            k, v = self.next()
            if v == "[" or v == "#[":
                depth += 1
            elif v == "]":
                depth -= 1
            if depth:
                text.append(v)
        return "".join(text)

    def parse_file(self):
        groups = []
        while self.peek()[0] != "eof":
            k, v = self.next()
            if v == "define_state_group!":
                self.expect("(")
                gname = self.next()[1]
                self.expect("=")
                self.expect("{")
                states = self.parse_states()
                self.expect("}")
                self.expect(")")
                self.expect(";")
                groups.append((gname, states))
            # anything else at file level (e.g. `#[macro_use] mod x;`) is skipped
        return groups

    def parse_states(self):
        states = []
        while self.peek()[1] != "}":
            attrs = []
            while self.peek()[1] == "#[":
                self.next()
                attrs.append(self.skip_attr())
            name = self.next()[1]
            enter = None
            if self.peek()[1] == "<--":
                self.next()
                self.expect("(")
                enter = self.parse_body(until=")")
                self.expect(")")
            self.expect("{")
            arms = []
            while self.peek()[1] != "}":
                arms.append(self.parse_arm())
            self.expect("}")
            states.append({"name": name, "attrs": attrs, "enter": enter, "arms": arms})
        return states

    def parse_arm(self):
        pat = self.parse_pat()
        self.expect("=>")
        self.expect("(")
        body = self.parse_body(until=")")
        self.expect(")")
        return {"pat": pat, "body": body}

    def parse_pat(self):
        k, v = self.next()
        if k == "byte":
            return {"kind": "byte", "lit": v}
        if v == "memchr":
            self.expect("(")
            b = self.next()
            self.expect(")")
            return {"kind": "memchr", "lit": b[1]}
        if v == "[":
            s = self.next()
            mods = []
            while self.peek()[1] == ";":
                self.next()
                mods.append(self.next()[1])
            self.expect("]")
            return {"kind": "seq", "seq": s[1].strip('"'), "ignore_case": "ignore_case" in mods}
        if v in ("alpha", "whitespace", "closing_quote", "eoc", "eof", "_"):
            return {"kind": v}
        raise DslError("%s: unknown arm pattern %r" % (self.fname, v))

    def parse_body(self, until):
        """action list up to (not including) the closing token"""
        if self.peek()[1] == "if":
            self.next()
            cond = self.next()[1]
            self.expect("(")
            then = self.parse_body(")")
            self.expect(")")
            self.expect("else")
            self.expect("(")
            els = self.parse_body(")")
            self.expect(")")
            return {"kind": "if", "cond": cond, "then": then, "else": els}
        actions = []
        transition = None
        while self.peek()[1] != until:
            k, v = self.peek()
            if v == "-->":
                self.next()
                inline = False
                if self.peek()[1] == "#[":
                    self.next()
                    a = self.skip_attr()
                    inline = a == "inline"
                if self.peek()[1] == "dyn":
                    self.next()
                    transition = {"kind": "dyn", "target": self.next()[1]}
                else:
                    transition = {"kind": "inline" if inline else "to", "target": self.next()[1]}
                if self.peek()[1] == ";":
                    self.next()
                continue
            if v == "reconsume":
                self.next()
                self.expect("in")
                transition = {"kind": "reconsume", "target": self.next()[1]}
                if self.peek()[1] == ";":
                    self.next()
                continue
            if k != "id":
                raise DslError("%s: unexpected token %r in action list" % (self.fname, v))
            self.next()
            act = {"name": v, "try": False, "args": []}
            if self.peek()[1] == "?":
                self.next()
                act["try"] = True
            while self.peek()[1] not in (";", until):
                act["args"].append(self.next()[1])
            if self.peek()[1] == ";":
                self.next()
            actions.append(act)
        return {"kind": "seq", "actions": actions, "transition": transition}


def parse_repo(repo):
    base = os.path.join(repo, "src", "parser", "state_machine", "syntax")
    states = {}
    order = []
    for path in sorted(glob.glob(os.path.join(base, "**", "*.rs"), recursive=True)):
        text = open(path).read()
        if "define_state_group!" not in text:
            continue
        p = P(tokenize(text), os.path.relpath(path, repo))
        for gname, sts in p.parse_file():
            for s in sts:
                s["group"] = gname
                s["file"] = os.path.relpath(path, repo)
                if s["name"] in states:
                    raise DslError("duplicate state %s" % s["name"])
                states[s["name"]] = s
                order.append(s["name"])
    return states, order


def leaves(body):
    """yield straight-line (actions, transition, conds) alternatives of an arm body"""
    if body is None:
        return
    if body["kind"] == "seq":
        yield body["actions"], body["transition"], []
    else:
        for a, t, c in leaves(body["then"]):
            yield a, t, [(body["cond"], True)] + c
        for a, t, c in leaves(body["else"]):
            yield a, t, [(body["cond"], False)] + c


def byte_value(lit):
    """b'x' / b'\\'' / b'\\x0C' -> int"""
    s = lit[2:-1]
    if s.startswith("\\"):
        esc = s[1:]
        if esc == "n":
            return 10
        if esc == "r":
            return 13
        if esc == "t":
            return 9
        if esc == "'":
            return 39
        if esc == "\\":
            return 92
        if esc == "0":
            return 0
        if esc.startswith("x"):
            return int(esc[1:], 16)
        raise DslError("escape " + lit)
    return ord(s)


if __name__ == "__main__":
    import json
    import sys
    st, order = parse_repo(sys.argv[1] if len(sys.argv) > 1 else "/repo")
    print(len(order), "states")
    for n in order:
        s = st[n]
        print(n, s["group"], "enter" if s["enter"] else "", [a["pat"]["kind"] for a in s["arms"]])
