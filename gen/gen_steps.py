"""Generate the per-state one-step Kani harnesses for the Lexer and the TagScanner from the DSL of
/repo's *current* tree (DESIGN §3). Called by check.py before harness discovery on every run."""
import itertools
import json
import os
import sys

sys.path.insert(0, os.path.dirname(os.path.abspath(__file__)))
import dsl  # noqa: E402

FLAGS = ["TAG", "NAMED", "TPS", "ATTR", "ATTRNAMED", "COMMENT", "DOCTYPE", "ANYTOKEN"]

# action -> (uses, creates); what an action silently skips when its operand is missing is still a "use":
# the DSL author's intent is that the operand exists (DESIGN §3.2)
ACTIONS = {
    "create_start_tag": (set(), {"TAG"}),
    "create_end_tag": (set(), {"TAG"}),
    "start_token_part": (set(), {"TPS"}),
    "finish_tag_name": ({"TAG", "TPS"}, {"NAMED"}),
    "update_tag_name_hash": ({"TAG"}, set()),
    "emit_tag": ({"TAG", "NAMED"}, set()),
    "mark_as_self_closing": ({"TAG", "NAMED"}, set()),
    "start_attr": ({"TAG", "NAMED"}, {"ATTR", "TPS"}),
    "finish_attr_name": ({"ATTR", "TPS"}, {"ATTRNAMED"}),
    "finish_attr_value": ({"ATTR", "ATTRNAMED", "TPS"}, set()),
    "finish_attr": ({"ATTR", "ATTRNAMED", "TAG", "NAMED"}, set()),
    "create_comment": (set(), {"COMMENT", "ANYTOKEN"}),
    "create_doctype": (set(), {"DOCTYPE", "ANYTOKEN"}),
    "mark_comment_text_end": ({"COMMENT", "TPS"}, set()),
    "shift_comment_text_end_by": ({"COMMENT"}, set()),
    "emit_current_token": ({"ANYTOKEN"}, set()),
    "emit_current_token_and_eof": ({"ANYTOKEN"}, set()),
    "set_force_quirks": ({"DOCTYPE"}, set()),
    "finish_doctype_name": ({"DOCTYPE", "TPS"}, set()),
    "finish_doctype_public_id": ({"DOCTYPE", "TPS"}, set()),
    "finish_doctype_system_id": ({"DOCTYPE", "TPS"}, set()),
}
CONDS = {"is_appropriate_end_tag": {"TAG"}, "cdata_allowed": set()}
NEUTRAL = {"emit_text", "emit_text_and_eof", "emit_raw_without_token", "emit_raw_without_token_and_eof",
           "mark_tag_start", "unmark_tag_start", "set_closing_quote_to_double", "set_closing_quote_to_single",
           "enter_cdata", "leave_cdata"}

# bytes already consumed after the marked end of the comment text, per comment state (hand-written once;
# the solver checks that it is inductive: P-inv asserts the target's k on every transition)
COMMENT_K = {
    "comment_start_dash_state": 1,
    "comment_end_dash_state": 1,
    "comment_end_state": 2,
    "comment_end_bang_state": 3,
    "comment_less_than_sign_bang_dash_state": 1,
    "comment_less_than_sign_bang_dash_dash_state": 2,
}
# measured (calibration 2026-09-23): with two unread bytes the inlined chain below this state needs > 14 GB
R2_TOO_DEEP = {"attribute_name_state"}
TEXT_STATES = ["data_state", "plaintext_state", "rcdata_state", "rawtext_state", "script_data_state", "cdata_section_state"]

# quick tier: which (state, property) pairs are checked on every change (the thorough tier runs every state
# for every property); chosen so that each property's quick check stays under ~10 minutes (DESIGN §3.5)
QUICK_LEXER = {
    "data_state": "C01", "tag_open_state": "C01", "tag_name_state": "C01,C16", "comment_end_state": "C01", "bogus_comment_state": "C01",
    "plaintext_state": "C01,C15",
    "rcdata_state": "C02", "attribute_value_double_quoted_state": "C02,C14", "after_attribute_name_state": "C02,C16", "comment_state": "C02,C14",
    "rcdata_end_tag_name_state": "C03", "script_data_end_tag_name_state": "C03",
    "after_doctype_system_identifier_state": "C02,C14", "doctype_public_identifier_state": "C02",
    "self_closing_start_tag_state": "C06", "before_attribute_name_state": "C06,C16",
    "before_attribute_value_state": "C14", "attribute_value_unquoted_state": "C14", "doctype_name_state": "C14",
    "end_tag_open_state": "C15", "script_data_state": "C15", "comment_start_state": "C15",
    "attribute_name_state": "C16", "attribute_value_single_quoted_state": "C16",
}
QUICK_SCANNER = {
    "data_state": "C01,C09", "tag_name_state": "C01,C06,C09",
    "markup_declaration_open_state": "C02,C09", "cdata_section_bracket_state": "C02", "script_data_escaped_state": "C02,C09,C15",
    "rcdata_end_tag_name_state": "C03,C06,C09", "script_data_escaped_end_tag_name_state": "C03,C09",
    "tag_open_state": "C09", "end_tag_open_state": "C09", "bogus_comment_state": "C09", "comment_state": "C09",
    "script_data_double_escaped_state": "C09", "script_data_double_escaped_less_than_sign_state": "C09", "rcdata_state": "C09",
    "plaintext_state": "C15", "before_attribute_name_state": "C15", "self_closing_start_tag_state": "C06",
}


def load_calibration():
    try:
        return json.load(open(os.path.join(os.path.dirname(os.path.dirname(os.path.abspath(__file__))), "calibration.json")))["harnesses"]
    except Exception:
        return {}


CAL = load_calibration()


def deeper_ok(harness):
    """the thorough tier uses the deeper chunk bound only for harnesses that were cheap at the quick bound
    (measured, calibration.json); the others keep the quick bound so that the thorough tier stays conclusive"""
    c = CAL.get(harness)
    return bool(c) and c["quick_time_s"] < 45 and c["quick_rss_mb"] < 800


class Model:
    def __init__(self, repo):
        self.states, self.order = dsl.parse_repo(repo)
        for s in self.states.values():
            s["leaves"] = []
            for arm in s["arms"]:
                for acts, tr, conds in dsl.leaves(arm["body"]):
                    s["leaves"].append({"pat": arm["pat"], "actions": acts, "transition": tr, "conds": conds})
            s["enter_actions"] = s["enter"]["actions"] if s["enter"] else []
        self.check_known()
        self.compute_req()
        self.compute_succ()
        self.compute_dist()
        self.compute_depth()

    def check_known(self):
        for s in self.states.values():
            for lf in s["leaves"]:
                for a in lf["actions"]:
                    if a["name"] not in ACTIONS and a["name"] not in NEUTRAL:
                        raise dsl.DslError("unknown action %s in %s" % (a["name"], s["name"]))
                tr = lf["transition"]
                if tr and tr["kind"] != "dyn" and tr["target"] not in self.states:
                    raise dsl.DslError("unknown target %s in %s" % (tr["target"], s["name"]))

    def need_before(self, actions, conds, need_after):
        need = set(need_after)
        for a in reversed(actions):
            uses, creates = ACTIONS.get(a["name"], (set(), set()))
            need = (need - creates) | uses
        for c, _ in conds:
            need |= CONDS.get(c, set())
        return need

    def compute_req(self):
        req = {n: set() for n in self.states}
        changed = True
        while changed:
            changed = False
            for n, s in self.states.items():
                body_need = set()
                for lf in s["leaves"]:
                    tr = lf["transition"]
                    if tr is None:
                        after = req[n] if lf["pat"]["kind"] not in ("eof", "eoc") else set()
                    elif tr["kind"] == "dyn":
                        after = set()
                    else:
                        after = req[tr["target"]]
                    body_need |= self.need_before(lf["actions"], lf["conds"], after)
                entry = self.need_before(s["enter_actions"], [], body_need)
                if entry != req[n]:
                    req[n] = entry
                    changed = True
        self.req = req

    def compute_succ(self):
        ret = {n: set() for n in self.states}
        brk = {n: {n} for n in self.states}
        emits_tag = {n: False for n in self.states}
        eof_possible = {n: False for n in self.states}
        seqlen = {n: 0 for n in self.states}
        changed = True
        while changed:
            changed = False
            for n, s in self.states.items():
                r, b, e, f, q = set(ret[n]), set(brk[n]), emits_tag[n], eof_possible[n], seqlen[n]
                for lf in s["leaves"]:
                    tr = lf["transition"]
                    if any(a["name"] == "emit_tag" for a in lf["actions"]):
                        e = True
                    if lf["pat"]["kind"] == "eof" and tr is None:
                        f = True
                    if lf["pat"]["kind"] == "seq":
                        q = max(q, len(lf["pat"]["seq"]))
                    if tr is None:
                        continue
                    if tr["kind"] == "dyn":
                        r |= set(TEXT_STATES) & set(self.states)
                    elif tr["kind"] == "inline":
                        t = tr["target"]
                        r |= ret[t]
                        b |= brk[t]
                        e = e or emits_tag[t]
                        f = f or eof_possible[t]
                        q = max(q, seqlen[t])
                    else:
                        r.add(tr["target"])
                if (r, b, e, f, q) != (ret[n], brk[n], emits_tag[n], eof_possible[n], seqlen[n]):
                    ret[n], brk[n], emits_tag[n], eof_possible[n], seqlen[n] = r, b, e, f, q
                    changed = True
        self.ret, self.brk, self.emits_tag, self.eof_possible, self.seqlen = ret, brk, emits_tag, eof_possible, seqlen

    def compute_dist(self):
        """D(s) = exact value of next_pos - lexeme_start at the entry of s when every incoming edge agrees
        (e.g. 1 right after '<' in tag_open_state, 2 after '</'), else None. Forward dataflow over the DSL."""
        TOP, VAR = "top", "var"
        EXCL = {"emit_text"}
        INCL = {"emit_tag", "emit_current_token", "emit_raw_without_token"}
        D = {n: TOP for n in self.states}
        if "data_state" in D:
            D["data_state"] = VAR

        def meet(a, b):
            if a == TOP:
                return b
            if b == TOP:
                return a
            return a if a == b else VAR

        changed = True
        while changed:
            changed = False
            for n, s in self.states.items():
                din = D[n]
                if din == TOP:
                    continue
                for lf in s["leaves"]:
                    k = lf["pat"]["kind"]
                    tr = lf["transition"]
                    if tr is None or tr["kind"] == "dyn" or k in ("eof", "eoc"):
                        if tr is not None and tr["kind"] == "dyn":
                            for t in TEXT_STATES:
                                if t in D and D[t] != VAR:
                                    D[t] = VAR
                                    changed = True
                        if tr is None and k not in ("eof", "eoc", "seq"):
                            # loop arm: stays in n with a different distance
                            if D[n] != VAR:
                                D[n] = VAR
                                changed = True
                        if tr is None or tr["kind"] == "dyn":
                            continue
                    # distance after consuming this arm's input
                    if k == "memchr" or din == VAR:
                        d = VAR
                    elif k == "seq":
                        d = din + len(lf["pat"]["seq"])
                    else:
                        d = din + 1
                    for a in lf["actions"]:
                        if a["name"] in EXCL:
                            d = 1
                        elif a["name"] in INCL:
                            d = 0
                    if tr["kind"] == "reconsume" and d != VAR:
                        d -= 1
                    t = tr["target"]
                    nd = meet(D[t], d)
                    if nd != D[t]:
                        D[t] = nd
                        changed = True
        self.dist = {n: (D[n] if isinstance(D[n], int) else -1) for n in self.states}

    def compute_depth(self):
        """length of the longest chain of #[inline] transitions starting at a state (cost driver)"""
        depth = {n: 1 for n in self.states}
        for _ in range(len(self.states)):
            for n, s in self.states.items():
                d = 1
                for lf in s["leaves"]:
                    tr = lf["transition"]
                    if tr and tr["kind"] == "inline":
                        d = max(d, 1 + depth[tr["target"]])
                depth[n] = min(d, 10)
        self.depth = depth

    def inline_arm_fn(self, n):
        """Rust source of `fn inline_arm_<n>(c: u8) -> bool`: does byte c select an arm of state n that
        jumps into another state with #[inline] (following the arm order of the DSL)"""
        arms = []
        for arm in self.states[n]["arms"]:
            k = arm["pat"]["kind"]
            inl = any(tr and tr["kind"] == "inline" for _, tr, _ in dsl.leaves(arm["body"]))
            if k == "byte":
                pat = arm["pat"]["lit"]
            elif k == "whitespace":
                pat = "b' ' | b'\\n' | b'\\r' | b'\\t' | b'\\x0C'"
            elif k == "alpha":
                pat = "b'a'..=b'z' | b'A'..=b'Z'"
            elif k == "_":
                pat = "_"
            else:
                continue
            arms.append("        %s => %s," % (pat, "true" if inl else "false"))
        if not any(a.lstrip().startswith("_ ") for a in arms):
            arms.append("        _ => false,")
        return "fn inline_arm_%s(c: u8) -> bool {\n    #[allow(unreachable_patterns)]\n    match c {\n%s\n    }\n}\n" % (n, "\n".join(arms))

    def split_inline(self, n):
        """states whose inline chain is too deep for one query are verified in two variants (DESIGN §3.5):
        v1 = no remaining byte selects an inline arm; v2 = the chunk ends right after the first such byte"""
        pats = {a["pat"]["kind"] for a in self.states[n]["arms"]}
        return self.depth[n] >= 3 and not (pats & {"memchr", "seq"}) and self.states[n]["group"] == "attributes_states_group"

    def nb(self, n):
        """buffer bound for the step harness of state n: 4 bytes, more where a look-ahead sequence or the
        distance from the lexeme start needs it, 3 where the inline chain is >= 4 states deep (quick tier)"""
        base = 4
        need = max(self.seqlen[n] + 1, self.dist[n] + 2 if self.dist[n] >= 0 else 0)
        q = max(base, need)
        t = max(base + 2, need + 1)
        return q, t

    def has_gate(self, n):
        return any(c == "is_appropriate_end_tag" for lf in self.states[n]["leaves"] for c, _ in lf["conds"])

    def terminators(self, n):
        """byte values on which the state leaves via an explicit arm (used by C08 name validators)"""
        out = set()
        for arm in self.states[n]["arms"]:
            k = arm["pat"]["kind"]
            if k == "byte":
                out.add(dsl.byte_value(arm["pat"]["lit"]))
            elif k == "whitespace":
                out |= {0x20, 0x0A, 0x0D, 0x09, 0x0C}
        return out


def flags_expr(fs):
    return " | ".join(sorted(fs, key=FLAGS.index)) if fs else "0"


def gen_lexer(m, tier):
    o = []
    w = o.append
    w("//! GENERATED by /verif/gen/gen_steps.py from /repo's tokenizer DSL on every check run. Do not edit.")
    w("// @requires src/parser/lexer/verif_kani_steps.rs")
    w("#![allow(non_upper_case_globals, unused_imports, dead_code)]")
    w("use super::verif_kani_steps::*;")
    w("use super::*;")
    w("use crate::parser::state_machine::StateMachine;")
    w("")
    for i, n in enumerate(m.order):
        w("const SID_%s: u16 = %d;" % (n, i))
    w("pub(crate) struct T;")
    w("impl Tables for T {")
    w("    const UNKNOWN: u16 = 9999;")
    w("    fn state_id(l: &Lexer<StepSink>) -> u16 {")
    w("        let s = l.state;")
    for n in m.order:
        w("        if s == (<Lexer<StepSink> as StateMachine>::%s as State<StepSink>) { return SID_%s; }" % (n, n))
    w("        Self::UNKNOWN")
    w("    }")
    w("    fn info(sid: u16) -> (u16, usize, bool) {")
    w("        match sid {")
    for n in m.order:
        w("            SID_%s => (%s, %d, %s)," % (n, flags_expr(m.req[n]), COMMENT_K.get(n, 0), "true" if m.has_gate(n) else "false"))
    w("            _ => (0, 0, false),")
    w("        }")
    w("    }")
    w("    fn dist(sid: u16) -> isize {")
    w("        match sid {")
    for n in m.order:
        if m.dist[n] >= 0:
            w("            SID_%s => %d," % (n, m.dist[n]))
    w("            _ => -1,")
    w("        }")
    w("    }")
    w("    fn has_lookahead(sid: u16) -> bool {")
    w("        match sid {")
    for n in m.order:
        if m.seqlen[n] > 0:
            w("            SID_%s => true," % n)
    w("            _ => false,")
    w("        }")
    w("    }")
    w("    fn is_succ(from: u16, to: u16) -> bool {")
    w("        match from {")
    for n in m.order:
        succ = sorted((m.ret[n] | m.brk[n]), key=m.order.index)
        w("            SID_%s => %s," % (n, " || ".join("to == SID_%s" % t for t in succ) or "false"))
    w("            _ => false,")
    w("        }")
    w("    }")
    w("    fn is_tag_continuation(sid: u16) -> bool {")
    cont = [n for n in m.order if n in ("before_attribute_name_state", "self_closing_start_tag_state")]
    w("        %s" % (" || ".join("sid == SID_%s" % n for n in cont) or "false"))
    w("    }")
    w("}")
    w("")
    for n in m.order:
        nb, nb_th = m.nb(n)
        variants = [("", "false", 0)]
        if "TAG" in m.req[n]:
            variants = [("_start", "false", 1 if "NAMED" in m.req[n] else 0), ("_end", "true", 0)]
            if m.has_gate(n):
                variants = [("_end", "true", 0)]
        cuts = [("", None)]
        if m.split_inline(n):
            cuts = [("_r0", 0), ("_r1", 1)]
            if n not in R2_TOO_DEEP:
                cuts.append(("_r2", 2))
        for (suffix0, end_tag, pre_attrs), (csuf, cut) in itertools.product(variants, cuts):
            suffix = suffix0 + csuf
            props = ["C01", "C02", "C14", "C15"]
            if "ATTR" in m.req[n] or "NAMED" in m.req[n] or n == "tag_name_state":
                props.append("C16")
            if m.has_gate(n):
                props.append("C03")
            if m.emits_tag[n]:
                props.append("C06")
            q = QUICK_LEXER.get(n, "") if (nb <= 4 and cut != 2) else ""
            props.append("STEPL")
            w("// @verif props=%s tier=thorough quick=%s fns=Lexer::%s note=one_step_from_arbitrary_invariant_state" % (",".join(props), q, n))
            nbv, nbt = nb, nb_th
            if cut is not None and end_tag == "true":
                # an end tag under construction needs room for "</x" + a delimiter before the cursor
                nbv, nbt = max(nb, cut + 4), max(nb_th, cut + 5)
            elif cut is not None:
                # a start tag with one finished (non-empty) attribute and one in progress: "<a b c" before the cursor
                nbv, nbt = max(nb, cut + 5), max(nb_th, cut + 6)
            if not deeper_ok("step_lexer_%s%s" % (n, suffix)):
                nbt = nbv
            w("#[kani::proof]")
            w("#[kani::unwind(%d)] // @thorough %d" % (nbv + 3, nbt + 3))
            w("fn step_lexer_%s%s() {" % (n, suffix))
            w("    const NB: usize = %d; // @thorough %d" % (nbv, nbt))
            # a finished earlier attribute in the pre-state needs room ("<a b " before the attribute in progress):
            # only the variants with the larger concrete chunk carry one
            pa = pre_attrs if cut is not None else 0
            w("    let mut st = pre_step::<T, NB>(SID_%s, %s, %d, %d);" % (n, end_tag, pa, -1 if cut is None else cut))
            w("    let n = st.n;")
            w("    st.l.state = <Lexer<StepSink> as StateMachine>::%s as State<StepSink>;" % n)
            w("    let r = <Lexer<StepSink> as StateMachine>::%s(&mut st.l, &mut st.ctx, &st.input[..n]);" % n)
            w("    let (out, emitted) = post_step::<T, NB>(st, r);")
            if m.ret[n] and cut != 0:
                w("    kani::cover!(out == OUT_OK);")
            w("    kani::cover!(out == OUT_BREAK);")
            if m.eof_possible[n] and cut in (None, 0):
                w("    kani::cover!(out == OUT_EOF);")
            if m.emits_tag[n] and cut != 0:
                w("    kani::cover!(out == OUT_SWITCH);")
            w("    let _ = emitted;")
            w("}")
            w("")
    return "\n".join(o)


SPLIT_ENABLED_IN_QUICK = True
# measured 2026-09-23: the three-run product does not finish within 900 s / runs out of memory for these states
# (every one of them emits a tag or sits in a deep doctype chain); they keep their one-step harnesses only
SPLIT_TOO_EXPENSIVE = {
    "attribute_value_unquoted_state", "before_attribute_value_state", "end_tag_open_state", "rawtext_end_tag_name_state",
    "rcdata_end_tag_name_state", "script_data_end_tag_name_state", "script_data_escaped_end_tag_name_state",
    "self_closing_start_tag_state", "tag_name_state", "tag_open_state", "after_doctype_name_state", "doctype_state",
    # enter-action states inside a tag: a 4-byte chunk has no room for '<a b="' before the cursor and the break
    # continues in an anonymous closure, so neither path can be compared
    "attribute_value_double_quoted_state", "attribute_value_single_quoted_state",
}
SPLIT_QUICK = {"data_state": "C02", "rcdata_state": "C02", "comment_state": "C02", "markup_declaration_open_state": "C02",
               "bogus_comment_state": "C02,C09", "cdata_section_bracket_state": "C02", "rawtext_state": "C02",
               "script_data_escaped_state": "C02"}


def gen_split(m, tier):
    """split-vs-whole harnesses (DESIGN §10.6): one per lexer state whose #[inline] chain is shallow"""
    o = []
    w = o.append
    w("//! GENERATED by /verif/gen/gen_steps.py from /repo's tokenizer DSL on every check run. Do not edit.")
    w("// @requires src/parser/lexer/verif_kani_split.rs")
    w("// @requires src/parser/lexer/verif_kani_steps_gen.rs")
    w("#![allow(non_upper_case_globals, unused_imports, dead_code, unreachable_patterns)]")
    w("use super::verif_kani_split::*;")
    w("use super::verif_kani_steps::*;")
    w("use super::verif_kani_steps_gen::T;")
    w("use super::*;")
    w("use crate::parser::state_machine::StateMachine;")
    w("")
    sid = {n: i for i, n in enumerate(m.order)}
    for n in m.order:
        if m.split_inline(n) or m.depth[n] > 3 or n in SPLIT_TOO_EXPENSIVE:
            continue
        nb = max(4, m.seqlen[n] + 1, (m.dist[n] + 2) if m.dist[n] >= 0 else 0)
        variants = [("", "false")]
        if "TAG" in m.req[n]:
            variants = [("_end", "true")] if m.has_gate(n) else [("_start", "false"), ("_end", "true")]
        for suffix, end_tag in variants:
            q = SPLIT_QUICK.get(n, "") if (nb <= 8 and SPLIT_ENABLED_IN_QUICK) else ""
            w("// @verif props=C02,C09,C14,C15,SPLIT tier=thorough quick=%s fns=Lexer::%s,StateMachine::break_on_end_of_input,Lexer::adjust_for_next_input note=split_vs_whole" % (q, n))
            w("#[kani::proof]")
            w("#[kani::unwind(%d)]" % (nb + 3))
            w("fn split_lexer_%s%s() {" % (n, suffix))
            w("    const NB: usize = %d;" % nb)
            w("    let input: [u8; NB] = kani::any();")
            w("    let n: usize = kani::any();")
            w("    let k: usize = kani::any();")
            w("    kani::assume(n <= NB && k < n);")
            w("    let s = sym_any();")
            w("    let (req, kk, _) = T::info(%d);" % sid[n])
            w("    let mut la = build(&s, req, %s);" % end_tag)
            w("    let eff = eff_req_for(%s, req);" % end_tag)
            w("    // the prefix contains the cursor: the pre-state is a state the machine can be in after reading input[..k']")
            w("    kani::assume(inv(&la, eff, kk, T::dist(%d), k));" % sid[n])
            w("    let mut lb = build(&s, req, %s);" % end_tag)
            w("    let last: bool = kani::any();")
            w("    la.is_last_input = last;")
            w("    la.state = <Lexer<StepSink> as StateMachine>::%s as State<StepSink>;" % n)
            w("    lb.state = la.state;")
            w("    let pc: usize = kani::any();")
            w("    kani::assume(pc <= usize::MAX / 2);")
            w("    let scan: bool = kani::any();")
            w("    let mut ca = new_ctx(pc, scan);")
            w("    let mut cb = new_ctx(pc, scan);")
            w("    let ra = outcome(<Lexer<StepSink> as StateMachine>::%s(&mut la, &mut ca, &input[..n]));" % n)
            w("    let rb1 = outcome(<Lexer<StepSink> as StateMachine>::%s(&mut lb, &mut cb, &input[..k]));" % n)
            w("    match rb1 {")
            w("        Out::Break(c) => {")
            w("            // what Parser::parse and TransformStream::write do between two chunks")
            w("            cb.previously_consumed_byte_count += c;")
            w("            lb.is_last_input = last;")
            w("            let nid = T::state_id(&lb);")
            w("            let rest = &input[c..n];")
            w("            let rb2 = match nid {")
            for t in sorted(m.brk[n], key=m.order.index):
                w("                %d => outcome(<Lexer<StepSink> as StateMachine>::%s(&mut lb, &mut cb, rest))," % (sid[t], t))
            w("                _ => {")
            w("                    // the break happened inside a state with enter actions (anonymous continuation): not comparable here")
            w("                    core::mem::forget(la); core::mem::forget(lb); core::mem::forget(ca); core::mem::forget(cb);")
            w("                    return;")
            w("                }")
            w("            };")
            w("            same_lexemes(&ca.output_sink, &cb.output_sink);")
            w("            same_scalars(&la, &lb);")
            w("            match (ra, rb2) {")
            w("                (Out::Ok, Out::Ok) => {")
            w("                    assert!(T::state_id(&la) == T::state_id(&lb), \"[C02] the successor state does not depend on the split\");")
            w("                    assert!(la.next_pos == lb.next_pos + c && la.lexeme_start == lb.lexeme_start + c, \"[C02,C14] positions differ exactly by the bytes consumed before the split\");")
            w("                }")
            w("                (Out::Break(x), Out::Break(y)) => {")
            w("                    assert!(x == c + y, \"[C02,C09] the bytes consumed so far do not depend on how the input was split\");")
            w("                    assert!(T::state_id(&la) == T::state_id(&lb), \"[C02] the state at the end of the input does not depend on the split\");")
            w("                    if !last { assert!(la.next_pos == lb.next_pos && la.lexeme_start == lb.lexeme_start && (T::info(T::state_id(&la)).0 & TPS == 0 || la.token_part_start == lb.token_part_start), \"[C02] the carried-over state does not depend on the split\"); }")
            w("                }")
            w("                (Out::Switch(x), Out::Switch(y)) => assert!(x == y + c, \"[C02,C06] the hand-over position does not depend on the split\"),")
            w("                _ => assert!(false, \"[C02] the kind of outcome does not depend on the split\"),")
            w("            }")
            if not m.states[n]["enter"]:
                w("            kani::cover!(c > 0 || k > 0);")
            w("        }")
            w("        Out::Ok => {")
            w("            // the transition happened inside the prefix: the longer chunk must behave identically")
            w("            assert!(ra == Out::Ok, \"[C02] a transition decided inside the prefix is also taken with more input\");")
            w("            same_lexemes(&ca.output_sink, &cb.output_sink);")
            w("            same_scalars(&la, &lb);")
            w("            assert!(T::state_id(&la) == T::state_id(&lb) && la.next_pos == lb.next_pos && la.lexeme_start == lb.lexeme_start, \"[C02] look-ahead never reads past the prefix to decide\");")
            if m.states[n]["enter"]:
                w("            kani::cover!(true);")
            w("        }")
            w("        Out::Switch(p) => {")
            w("            assert!(ra == Out::Switch(p), \"[C02,C06] a mode switch decided inside the prefix is also taken with more input\");")
            w("            same_lexemes(&ca.output_sink, &cb.output_sink);")
            w("        }")
            w("        Out::Other => assert!(false, \"[C15] no error without a failing sink\"),")
            w("    }")
            w("    core::mem::forget(la); core::mem::forget(lb); core::mem::forget(ca); core::mem::forget(cb);")
            w("}")
            w("")
    return "\n".join(o)


def generate(repo, overlay, tier):
    m = Model(repo)
    dst = os.path.join(overlay, "src", "parser", "lexer", "verif_kani_steps_gen.rs")
    os.makedirs(os.path.dirname(dst), exist_ok=True)
    text = gen_lexer(m, tier)
    if not os.path.exists(dst) or open(dst).read() != text:
        open(dst, "w").write(text)
    dst2 = os.path.join(overlay, "src", "parser", "lexer", "verif_kani_split_gen.rs")
    text2 = gen_split(m, tier)
    if not os.path.exists(dst2) or open(dst2).read() != text2:
        open(dst2, "w").write(text2)
    try:
        import gen_scanner
        gen_scanner.generate_scanner(m, overlay, tier)
    except ImportError:
        pass
    # DSL facts other harness families use
    facts = {
        "tag_name_terminators": sorted(m.terminators("tag_name_state")) if "tag_name_state" in m.states else [],
        "attribute_name_terminators": sorted(m.terminators("attribute_name_state")) if "attribute_name_state" in m.states else [],
        "states": m.order,
    }
    # emitted for harnesses that compare the name validators with the tokenizer (C08)
    fx = "//! GENERATED from /repo's tokenizer DSL on every run: bytes on which a name state leaves via an explicit arm.\n#![allow(dead_code)]\n"
    fx += "pub(crate) const TAG_NAME_TERMINATORS: &[u8] = &%s;\n" % json.dumps(facts["tag_name_terminators"])
    fx += "pub(crate) const ATTRIBUTE_NAME_TERMINATORS: &[u8] = &%s;\n" % json.dumps(facts["attribute_name_terminators"])
    dst3 = os.path.join(overlay, "src", "verif_kani_dsl_facts_gen.rs")
    if not os.path.exists(dst3) or open(dst3).read() != fx:
        open(dst3, "w").write(fx)
    return m, facts


if __name__ == "__main__":
    m, facts = generate(sys.argv[1] if len(sys.argv) > 1 else "/repo", sys.argv[2] if len(sys.argv) > 2 else "/verif/overlay", "quick")
    for n in m.order:
        print("%-55s req=%-40s k=%d ret=%d brk=%d seq=%d" % (n, flags_expr(m.req[n]), COMMENT_K.get(n, 0), len(m.ret[n]), len(m.brk[n]), m.seqlen[n]))
    print(json.dumps(facts))
