"""Engine Z: z3 (cross-checked with cvc5 on a sample) translation validation of the selector front end.

For every selector of a bounded-exhaustive population the real front end (parser + Ast::add_selector,
run concretely through a helper binary built against /repo's current tree) yields an Ast; its matching
semantics Impl_s is compared by the solver with the CSS semantics Spec_s of the selector's own syntax tree
over ALL documents of a symbolic spine (depth <= D, enumerated attribute/tag/index domains). sat = a
concrete document, replayed through rewrite_str before anything is reported."""
import json
import os
import shutil
import subprocess
import sys
import time
import zlib

from . import common, zmodel
from .common import log

VENV_PY = shutil.which("python3-vt") or "python3-vt"


def _ensure_z3():
    try:
        import z3  # noqa: F401
        return True
    except ImportError:
        return False


def run(prop, tier, seed):
    """re-exec under the tooling venv (z3-solver lives there)"""
    if not _ensure_z3():
        out_path = os.path.join(common.scratch_root(), "lolhtml-verif.z.%d.json" % os.getpid())
        cmd = [VENV_PY, "-m", "vlib.engine_z", prop, tier, str(seed), out_path]
        p = subprocess.run(cmd, cwd=common.VERIF, env=dict(os.environ, PYTHONPATH=common.VERIF))
        try:
            res = json.load(open(out_path))
            os.remove(out_path)
        except Exception:
            res = {"violations": [], "known": [], "inconclusive": [["Z", "engine Z crashed (exit %s)" % p.returncode]], "coverage": {}}
        res["violations"] = [tuple(x) for x in res["violations"]]
        res["known"] = [(a, b) for a, b in res["known"]]
        res["inconclusive"] = [tuple(x) for x in res["inconclusive"]]
        return res
    return _run(prop, tier, seed)


def merge_coverage(cov, outz):
    z = outz.get("coverage", {})
    if not cov:
        return z
    cov = dict(cov)
    cov["engine_z"] = z
    cov["evaluations"] = cov.get("evaluations", 0) + z.get("evaluations", 0)
    cov["distinct_nontrivial"] = cov.get("distinct_nontrivial", 0) + z.get("distinct_nontrivial", 0)
    cov["programs"] = z.get("programs", 0)
    cov["disagreements_checked"] = z.get("disagreements_checked", 0)
    return cov


def build_helper(sc):
    hdir = os.path.join(sc.dir, "zhelper")
    shutil.copytree(os.path.join(common.VERIF, "tools", "zhelper"), hdir)
    shutil.copy(os.path.join(common.REPO, "Cargo.lock"), os.path.join(hdir, "Cargo.lock"))
    os.makedirs(os.path.join(hdir, ".cargo"), exist_ok=True)
    open(os.path.join(hdir, ".cargo", "config.toml"), "w").write("[net]\noffline = true\n")
    tgt = os.path.join(sc.dir, "ztgt")
    seed_dir = os.path.join(common.CACHE, "zhelper-deps")
    if os.path.isdir(seed_dir):
        subprocess.run(["cp", "-a", seed_dir, tgt])
    p = subprocess.run(["cargo", "build", "--offline", "--target-dir", tgt], cwd=hdir, env=common.offline_env(), capture_output=True, text=True)
    if p.returncode != 0:
        return None, p.stderr[-3000:]
    return os.path.join(tgt, "debug", "zhelper"), ""


def helper(binpath, mode, payload, sc, tag):
    f = os.path.join(sc.dir, "z_%s_%s.json" % (mode, tag))
    json.dump(payload, open(f, "w"))
    p = subprocess.run([binpath, mode, f], capture_output=True, text=True)
    if p.returncode != 0:
        raise RuntimeError("zhelper %s failed: %s" % (mode, p.stderr[-2000:]))
    return json.loads(p.stdout)


class Z3Ctx(zmodel.Ctx):
    def __init__(self, z3, depth):
        self.z3 = z3
        self.vars = []
        self.domain = []
        for p in range(depth):
            v = {k: z3.Int("%s_%d" % (k, p)) for k in ("tag", "id", "class", "x", "cidx", "tidx")}
            self.vars.append(v)
            self.domain += [v["tag"] >= 0, v["tag"] < len(zmodel.TAGS), v["id"] >= 0, v["id"] < len(zmodel.IDV),
                            v["class"] >= 0, v["class"] < len(zmodel.CLV), v["x"] >= 0, v["x"] < len(zmodel.XV),
                            v["cidx"] >= 0, v["cidx"] < zmodel.MAXIDX, v["tidx"] >= 0, v["tidx"] <= v["cidx"]]

    def leaf(self, leaf, p):
        var, table = zmodel.leaf_var_and_table(leaf)
        v = self.vars[p][var]
        idx = [i for i, t in enumerate(table) if t]
        if len(idx) == len(table):
            return self.z3.BoolVal(True)
        return self.z3.Or([v == i for i in idx]) if idx else self.z3.BoolVal(False)

    def true(self):
        return self.z3.BoolVal(True)

    def and_(self, xs):
        return self.z3.And(list(xs)) if xs else self.z3.BoolVal(True)

    def or_(self, xs):
        return self.z3.Or(list(xs)) if xs else self.z3.BoolVal(False)

    def not_(self, x):
        return self.z3.Not(x)

    def model_chain(self, m):
        chain = []
        for v in self.vars:
            chain.append({k: (m.eval(x, model_completion=True).as_long()) for k, x in v.items()})
        return chain


def render_doc(chain, salt=0):
    """nested elements realising the chain; chain element p carries data-v="p"; (cidx) preceding siblings of
    which (tidx) have the same (case-insensitive) tag name are inserted before it; filler siblings carry
    data-v="f"."""
    def attrs(el, p):
        out = ' data-v="%s"' % p
        up = (salt + p) % 2 == 1
        if zmodel.IDV[el["id"]] is not None:
            out += ' %s="%s"' % ("ID" if up else "id", zmodel.IDV[el["id"]])
        if zmodel.CLV[el["class"]] is not None:
            out += ' %s="%s"' % ("Class" if up else "class", zmodel.CLV[el["class"]])
        if zmodel.XV[el["x"]] is not None:
            out += ' %s="%s"' % ("X" if up else "x", zmodel.XV[el["x"]])
            if up:
                out += ' x="zz"'  # duplicate attribute: the first one wins
        return out

    def open_with_siblings(el, p):
        tag = zmodel.TAGS[el["tag"]]
        same = el["tidx"]
        other = el["cidx"] - el["tidx"]
        sib = ""
        for i in range(same):
            t = tag.upper() if (i + salt) % 2 else tag.lower()
            sib += '<%s data-v="f"></%s>' % (t, t)
        for _ in range(other):
            sib += '<q data-v="f"></q>'
        return sib + "<%s%s>" % (tag, attrs(el, p))

    html = ""
    for p, el in enumerate(chain):
        html += open_with_siblings(el, p)
    for el in reversed(chain):
        html += "</%s>" % zmodel.TAGS[el["tag"]]
    return html


def _run(prop, tier, seed):
    import z3
    t0 = time.time()
    D = 3 if tier == "quick" else 4
    out = {"violations": [], "known": [], "inconclusive": [], "coverage": {}}
    known = [k for k in json.load(open(os.path.join(common.VERIF, "known_findings.json")))["findings"]
             if k["property"] == prop and k.get("engine") == "Z" and k["status"] == "known"]
    batches = zmodel.population(tier)
    css_batches = [[zmodel.css_selector(s) for s in b] for b in batches]
    queries = 0
    solver_time = 0.0
    unsat = 0
    sat_witnesses = []
    replays = []   # (batch index, selector index, chain, html, kind)
    samples = []
    with common.Scratch("Z." + prop + "." + tier, with_tests=False) as sc:
        binpath, err = build_helper(sc)
        if binpath is None:
            out["inconclusive"].append(("Z", "helper build failed against /repo's current tree: " + err[-500:]))
            return out
        asts = helper(binpath, "ast", css_batches, sc, "all")
        ctxs = {}
        for bi, (batch, cssb, res) in enumerate(zip(batches, css_batches, asts)):
            if res["error"] is not None:
                out["inconclusive"].append(("Z", "front end rejected generated selector %r: %s" % (cssb, res["error"])))
                continue
            try:
                ast = zmodel.DebugParser(res["debug"]).value()
            except Exception as e:
                out["inconclusive"].append(("Z", "cannot parse Ast dump for %r: %s" % (cssb, e)))
                continue
            ctx = Z3Ctx(z3, D)
            for si, sel in enumerate(batch):
                diffs = []
                for d in range(D):
                    spec = zmodel.spec_selector(ctx, sel, d)
                    impl = zmodel.impl_match(ctx, ast, si, d)
                    diffs.append(z3.Xor(spec, impl))
                s = z3.Solver()
                s.add(ctx.domain)
                s.add(z3.Or(diffs))
                tq = time.time()
                r = s.check()
                solver_time += time.time() - tq
                queries += 1
                if r == z3.unsat:
                    unsat += 1
                elif r == z3.sat:
                    chain = ctx.model_chain(s.model())
                    replays.append((bi, si, chain, render_doc(chain, seed), "mismatch"))
                else:
                    out["inconclusive"].append(("Z", "solver returned unknown for %r" % cssb[si]))
                # solver-chosen validation documents: for every depth d a document in which the selector matches
                # the element at depth d (and does not match at some other depth, when possible); they are replayed
                # through the real rewriter, which validates the reading of the Ast and exercises the compiled VM
                if (zlib.crc32(cssb[si].encode()) + seed) % (2 if tier == "quick" else 1) == 0 or len(batch) > 1:
                    for d in range(D):
                        s2 = z3.Solver()
                        s2.add(ctx.domain)
                        s2.add(zmodel.spec_selector(ctx, sel, d))
                        others = [z3.Not(zmodel.spec_selector(ctx, sel, e)) for e in range(D) if e != d]
                        tq = time.time()
                        s2.push()
                        s2.add(z3.Or(others))
                        r2 = s2.check()
                        if r2 != z3.sat:
                            s2.pop()
                            r2 = s2.check()
                        solver_time += time.time() - tq
                        queries += 1
                        if r2 == z3.sat:
                            chain = ctx.model_chain(s2.model())
                            replays.append((bi, si, chain, render_doc(chain, seed + d), "validate"))
                if len(samples) < 12 and (bi % 37 == 0):
                    samples.append({"selectors": cssb, "checked_id": si, "verdict": str(r), "depth": D})
        # replay everything through the real rewriter
        cases = [{"selectors": css_batches[bi], "html": html} for bi, si, chain, html, kind in replays]
        real = helper(binpath, "match", cases, sc, "replay") if cases else []
        validated = 0
        for (bi, si, chain, html, kind), rr in zip(replays, real):
            sel = batches[bi][si]
            conc = zmodel.Concrete(chain)
            want = sorted(str(d) for d in range(len(chain)) if zmodel.spec_selector(conc, sel, d))
            got = sorted(h for h in rr["hits"][si] if h != "f")
            css = css_batches[bi][si]
            if not rr["ok"] or rr["parse_error"] is not None:
                out["inconclusive"].append(("Z", "replay failed for %r" % css))
                continue
            if got == want:
                if kind == "mismatch":
                    out["inconclusive"].append(("Z", "Ast model and CSS semantics differ for %r on %s but the real rewriter agrees with CSS: model of Ast semantics is wrong" % (css, html)))
                else:
                    validated += 1
                continue
            # genuine disagreement between the real rewriter and CSS semantics on a concrete document
            role_known = None
            if zmodel.selector_needs_disjunction(sel):
                for k in known:
                    if k.get("role") == "negation_argument_is_compound":
                        role_known = k
            if role_known:
                if not any(x[1]["id"] == role_known["id"] for x in out["known"]):
                    out["known"].append(("Z:%s" % css, role_known))
                continue
            rp = os.path.join(common.REPLAY, prop, "z_%08x.json" % zlib.crc32((css + html).encode()))
            common.write_json(rp, {"engine": "Z", "property": prop, "selectors": css_batches[bi], "checked": si, "html": html,
                                   "css_semantics_matches": want, "real_matches": got, "kind": kind})
            out["violations"].append(("Z:%s" % css, rp, "selector %r on %s: CSS semantics matches elements %s, lol-html fired for %s" % (css, html, want, got)))
    # cvc5 cross-check on a sample of the queries (fresh export)
    cvc5_checked = cvc5_cross_check(z3, batches, css_batches, asts, D, seed, 6 if tier == "quick" else 40, out)
    nsel = sum(len(b) for b in batches)
    out["coverage"] = {
        "programs": nsel,
        "disagreements_checked": len([1 for r in replays if r[4] == "mismatch"]),
        "evaluations": queries,
        "distinct_nontrivial": unsat,
        "rule": "one program = one selector (string) of the bounded-exhaustive population, registered alone or together with others in one Ast; "
                "one evaluation = one z3 query over all documents of the symbolic spine; non-trivial = the Impl!=Spec query is unsat (equal on every document in the bound)",
        "samples": samples,
        "queries_discharged": unsat,
        "solver_time_s": round(solver_time, 2),
        "traces_validated_against_impl": validated,
        "cvc5_cross_checked": cvc5_checked,
        "bounds": {"spine_depth": D, "tags": zmodel.TAGS, "id_values": zmodel.IDV, "class_values": zmodel.CLV, "x_values": zmodel.XV,
                   "sibling_index_max": zmodel.MAXIDX, "batches": len(batches), "selectors": nsel},
        "functions_encoded": ["selectors_vm::parser::SelectorsParser::parse (concrete)", "selectors_vm::ast::Ast::add_selector (concrete, result symbolically evaluated)",
                              "Predicate::add_selector_components", "Ast::host_expressions"],
        "trusted_base": ["leaf semantics table (zmodel.attr_op_holds, nth_holds) shared by both sides; the real leaf code is checked by the Kani harnesses c04_attr_*/c04_nth_child_*",
                         "reading of the Ast: root nodes apply at any depth, `children` = parent edge, `descendants` = some-ancestor edge, negation flags per expression",
                         "z3 4.x via z3-solver; cvc5 on a sample"],
        "wall_s": round(time.time() - t0, 1),
    }
    return out


def cvc5_cross_check(z3, batches, css_batches, asts, D, seed, n, out):
    cv = shutil.which("cvc5")
    if not cv:
        return 0
    checked = 0
    idx = [i for i in range(len(batches)) if (zlib.crc32(str(css_batches[i]).encode()) + seed) % max(1, len(batches) // n) == 0][:n]
    for bi in idx:
        res = asts[bi]
        if res["error"] is not None:
            continue
        try:
            ast = zmodel.DebugParser(res["debug"]).value()
        except Exception:
            continue
        ctx = Z3Ctx(z3, D)
        sel = batches[bi][0]
        s = z3.Solver()
        s.add(ctx.domain)
        s.add(z3.Or([z3.Xor(zmodel.spec_selector(ctx, sel, d), zmodel.impl_match(ctx, ast, 0, d)) for d in range(D)]))
        r = s.check()
        smt = "(set-logic ALL)\n" + s.to_smt2()
        p = subprocess.run([cv, "--lang", "smt2"], input=smt, capture_output=True, text=True)
        ans = p.stdout.strip().split("\n")[0] if p.stdout.strip() else ""
        if "(error" in p.stdout or ans not in ("sat", "unsat"):
            out["inconclusive"].append(("Z", "cvc5 gave no verdict on cross-check of %r: %s" % (css_batches[bi][0], p.stdout[:200])))
        elif ans != str(r):
            out["inconclusive"].append(("Z", "z3 and cvc5 disagree on %r (%s vs %s)" % (css_batches[bi][0], r, ans)))
        checked += 1
    return checked


def replay_file(prop, path):
    """re-run a stored Engine Z counterexample through the real rewriter on /repo's current tree"""
    rec = json.load(open(path))
    with common.Scratch("Zreplay", with_tests=False) as sc:
        binpath, err = build_helper(sc)
        if binpath is None:
            log("helper build failed: " + err[-500:])
            return common.EXIT_INCONCLUSIVE
        rr = helper(binpath, "match", [{"selectors": rec["selectors"], "html": rec["html"]}], sc, "one")[0]
        got = sorted(h for h in rr["hits"][rec["checked"]] if h != "f")
        log("selectors=%r html=%s css=%s real=%s" % (rec["selectors"], rec["html"], rec["css_semantics_matches"], got))
        if got != rec["css_semantics_matches"]:
            log("VIOLATION property=%s replay=%s" % (prop, path))
            return common.EXIT_VIOLATION
    log("replay does not reproduce on the current tree")
    return common.EXIT_OK


if __name__ == "__main__":
    prop, tier, seed, out_path = sys.argv[1], sys.argv[2], int(sys.argv[3]), sys.argv[4]
    res = _run(prop, tier, seed)
    json.dump(res, open(out_path, "w"))
