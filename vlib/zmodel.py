"""Engine Z model: selector grammar (our own syntax trees), CSS Selectors leaf semantics, parser of the
`{:#?}` rendering of lol-html's selector Ast, and the z3 encodings Spec_s / Impl_s over a symbolic
document spine (DESIGN §2.2)."""
import itertools
import re
import zlib

# ------------------------------------------------------------------------------------------------
# element domains (small, enumerated; every leaf depends on exactly one of these variables)
TAGS = ["a", "b", "p", "A"]
IDV = [None, "a", "b", "A"]
CLV = [None, "", "a", "b", "a b", "A", " a", "b  a"]
XV = [None, "", "a", "ab", "a b", "a-b", "A", "ba", "b", "-a"]
MAXIDX = 3
WS = " \t\n\r\x0c"


def lc(s):
    return "".join(chr(ord(c) + 32) if "A" <= c <= "Z" else c for c in s)


def eq(a, b, ci):
    return lc(a) == lc(b) if ci else a == b


def words(v):
    out, cur = [], ""
    for c in v:
        if c in WS:
            if cur:
                out.append(cur)
            cur = ""
        else:
            cur += c
    if cur:
        out.append(cur)
    return out


def nth_holds(a, b, i):
    # exists n >= 0: a*n + b == i
    d = i - b
    if a == 0:
        return d == 0
    return d % a == 0 and d // a >= 0


def attr_op_holds(op, val, operand, ci):
    """CSS Selectors Level 4 §6.1-6.2 attribute operators on a present attribute value."""
    if op == "=":
        return eq(val, operand, ci)
    if op == "~=":
        return operand != "" and not any(c in WS for c in operand) and any(eq(w, operand, ci) for w in words(val))
    if op == "|=":
        return eq(val, operand, ci) or (len(val) > len(operand) and val[len(operand)] == "-" and eq(val[:len(operand)], operand, ci))
    if op == "^=":
        return operand != "" and len(val) >= len(operand) and eq(val[:len(operand)], operand, ci)
    if op == "$=":
        return operand != "" and len(val) >= len(operand) and eq(val[len(val) - len(operand):], operand, ci)
    if op == "*=":
        return operand != "" and any(eq(val[i:i + len(operand)], operand, ci) for i in range(len(val) - len(operand) + 1))
    raise ValueError(op)


# a "leaf" is a tuple describing one simple test; both Spec (from our syntax) and Impl (from the Ast dump)
# are mapped to leaves and evaluated by the same table
#   ("tag", name) ("any",) ("never",) ("id", v) ("class", v) ("has", attrname) ("attr", attrname, op, operand, ci)
#   ("nthc", a, b) ("ntht", a, b)

def leaf_var_and_table(leaf):
    """-> (variable kind, [bool per domain value])"""
    k = leaf[0]
    if k == "tag":
        return "tag", [lc(t) == lc(leaf[1]) for t in TAGS]
    if k == "any":
        return "tag", [True] * len(TAGS)
    if k == "never":
        return "tag", [False] * len(TAGS)
    if k == "id":
        return "id", [v is not None and v == leaf[1] for v in IDV]
    if k == "class":
        return "class", [v is not None and leaf[1] in words(v) for v in CLV]
    if k in ("has", "attr"):
        name = lc(leaf[1])
        if name == "id":
            var, dom = "id", IDV
        elif name == "class":
            var, dom = "class", CLV
        elif name == "x":
            var, dom = "x", XV
        else:
            return "tag", [False] * len(TAGS)  # an attribute no element of the model carries
        if k == "has":
            return var, [v is not None for v in dom]
        _, _, op, operand, ci = leaf
        return var, [v is not None and attr_op_holds(op, v, operand, ci) for v in dom]
    if k == "nthc":
        return "cidx", [nth_holds(leaf[1], leaf[2], i) for i in range(1, MAXIDX + 1)]
    if k == "ntht":
        return "tidx", [nth_holds(leaf[1], leaf[2], i) for i in range(1, MAXIDX + 1)]
    raise ValueError(leaf)


def leaf_concrete(leaf, el):
    var, table = leaf_var_and_table(leaf)
    return table[el[var]]


# ------------------------------------------------------------------------------------------------
# our selector syntax trees
#   simple: ("type",n) ("univ",) ("id",v) ("class",v) ("has",n) ("attr",n,op,v,flag) ("nth",kind,a,b,text) ("not",[compound,...])
#   compound: [simple,...]   complex: [compound, (comb, compound), ...]   selector: [complex,...]

def css_simple(s):
    k = s[0]
    if k == "type":
        return s[1]
    if k == "univ":
        return "*"
    if k == "id":
        return "#" + s[1]
    if k == "class":
        return "." + s[1]
    if k == "has":
        return "[%s]" % s[1]
    if k == "attr":
        return '[%s%s"%s"%s]' % (s[1], s[2], s[3], (" " + s[4]) if s[4] else "")
    if k == "nth":
        return s[4]
    if k == "not":
        return ":not(%s)" % ", ".join(css_compound(c) for c in s[1])
    raise ValueError(s)


def css_compound(c):
    # type / universal selector must come first in a compound
    first = [s for s in c if s[0] in ("type", "univ")]
    rest = [s for s in c if s[0] not in ("type", "univ")]
    return "".join(css_simple(s) for s in first + rest)


def css_complex(cx):
    out = css_compound(cx[0])
    for comb, comp in cx[1:]:
        out += (" > " if comb == ">" else " ") + css_compound(comp)
    return out


def css_selector(sel):
    return ", ".join(css_complex(cx) for cx in sel)


def needs_disjunction(simple, depth=0):
    """role predicate of known finding F1: a :not() whose argument cannot be flattened into a conjunction
    of (negated) simple tests: a compound of >= 2 simples at odd nesting depth, or a list of >= 2 at even
    nesting depth >= 2."""
    if simple[0] != "not":
        return False
    d = depth + 1
    args = simple[1]
    if d % 2 == 1 and any(len(c) >= 2 for c in args):
        return True
    if d % 2 == 0 and len(args) >= 2:
        return True
    return any(needs_disjunction(s, d) for c in args for s in c)


def selector_needs_disjunction(sel):
    return any(needs_disjunction(s) for cx in sel for comp in [cx[0]] + [c for _, c in cx[1:]] for s in comp)


def spec_leaf(s):
    k = s[0]
    if k == "type":
        return ("tag", s[1])
    if k == "univ":
        return ("any",)
    if k == "id":
        return ("id", s[1])
    if k == "class":
        return ("class", s[1])
    if k == "has":
        return ("has", s[1])
    if k == "attr":
        # flag: None -> case-sensitive for the attribute names of the model (not in HTML's legacy list)
        return ("attr", s[1], s[2], s[3], s[4] == "i")
    if k == "nth":
        return ("nthc" if s[1] == "child" else "ntht", s[2], s[3])
    raise ValueError(s)


# ------------------------------------------------------------------------------------------------
# generic boolean structure over leaves; evaluated either concretely or into z3
class Ctx:
    """evaluation context at chain position p"""

    def leaf(self, leaf, p):
        raise NotImplementedError

    def true(self):
        raise NotImplementedError

    def and_(self, xs):
        raise NotImplementedError

    def or_(self, xs):
        raise NotImplementedError

    def not_(self, x):
        raise NotImplementedError


class Concrete(Ctx):
    def __init__(self, chain):
        self.chain = chain

    def leaf(self, leaf, p):
        return leaf_concrete(leaf, self.chain[p])

    def true(self):
        return True

    def and_(self, xs):
        return all(xs)

    def or_(self, xs):
        return any(xs)

    def not_(self, x):
        return not x


def spec_simple(ctx, s, p):
    if s[0] == "not":
        # :not() negates its whole argument (a list of compounds)
        return ctx.not_(ctx.or_([spec_compound(ctx, c, p) for c in s[1]]))
    return ctx.leaf(spec_leaf(s), p)


def spec_compound(ctx, c, p):
    return ctx.and_([spec_simple(ctx, s, p) for s in c])


def spec_complex(ctx, cx, d):
    """does the complex selector match the element at chain position d (chain[0] is the root element)"""
    comps = [cx[0]] + [c for _, c in cx[1:]]
    combs = [None] + [cb for cb, _ in cx[1:]]
    # S[k][p] = compounds 0..k matched with compound k at position p
    S = []
    for k, comp in enumerate(comps):
        row = []
        for p in range(d + 1):
            here = spec_compound(ctx, comp, p)
            if k == 0:
                row.append(here)
            elif combs[k] == ">":
                row.append(ctx.and_([here, S[k - 1][p - 1]]) if p >= 1 else ctx.not_(ctx.true()))
            else:
                row.append(ctx.and_([here, ctx.or_([S[k - 1][q] for q in range(p)])]) if p >= 1 else ctx.not_(ctx.true()))
        S.append(row)
    return S[-1][d]


def spec_selector(ctx, sel, d):
    return ctx.or_([spec_complex(ctx, cx, d) for cx in sel])


# ------------------------------------------------------------------------------------------------
# parser of Rust `{:#?}` output (structs, tuple structs, enums, vecs, strings, numbers)
class DebugParser:
    TOK = re.compile(r'\s*(?:(?P<str>"(?:[^"\\]|\\.)*")|(?P<num>-?\d+)|(?P<id>[A-Za-z_][A-Za-z0-9_]*(?:::[A-Za-z_][A-Za-z0-9_]*)*)|(?P<p>[{}()\[\],:]))')

    def __init__(self, text):
        self.toks = []
        i = 0
        text = text.rstrip()
        while i < len(text):
            m = self.TOK.match(text, i)
            if not m:
                raise ValueError("debug parse error at %r" % text[i:i + 40])
            i = m.end()
            self.toks.append((m.lastgroup, m.group(m.lastgroup)))
        self.i = 0

    def peek(self):
        return self.toks[self.i] if self.i < len(self.toks) else ("eof", "")

    def next(self):
        t = self.peek()
        self.i += 1
        return t

    def value(self):
        k, v = self.next()
        if k == "str":
            return bytes(v[1:-1], "utf-8").decode("unicode_escape")
        if k == "num":
            return int(v)
        if k == "p" and v == "[":
            items = []
            while self.peek()[1] != "]":
                items.append(self.value())
                if self.peek()[1] == ",":
                    self.next()
            self.next()
            return items
        if k == "id":
            if v in ("true", "false"):
                return v == "true"
            nxt = self.peek()[1]
            if nxt == "{":
                self.next()
                fields = {}
                while self.peek()[1] != "}":
                    name = self.next()[1]
                    assert self.next()[1] == ":"
                    fields[name] = self.value()
                    if self.peek()[1] == ",":
                        self.next()
                self.next()
                return {"_": v, **fields}
            if nxt == "(":
                self.next()
                items = []
                while self.peek()[1] != ")":
                    items.append(self.value())
                    if self.peek()[1] == ",":
                        self.next()
                self.next()
                return {"_": v, "args": items}
            return {"_": v}
        raise ValueError("unexpected token %r" % v)


def dense_set_ids(v):
    if v["_"] == "Inline":
        words_ = [v["args"][0]]
    else:
        words_ = v["args"][0]
    out = []
    for wi, w in enumerate(words_):
        for b in range(32):
            if w >> b & 1:
                out.append(wi * 32 + b)
    return out


OPS = {"AttrSelectorOperator::Equal": "=", "AttrSelectorOperator::Includes": "~=", "AttrSelectorOperator::DashMatch": "|=",
       "AttrSelectorOperator::Prefix": "^=", "AttrSelectorOperator::Substring": "*=", "AttrSelectorOperator::Suffix": "$="}


def impl_leaf(e):
    """leaf of an Ast simple_expr (as the VM is documented to evaluate it; html elements)"""
    k = e["_"]
    if k == "ExplicitAny":
        return ("any",)
    if k == "Unmatchable":
        return ("never",)
    if k == "LocalName":
        return ("tag", e["args"][0])
    if k in ("NthChild", "NthOfType"):
        n = e["args"][0]
        return ("nthc" if k == "NthChild" else "ntht", n["step"], n["offset"])
    if k == "Id":
        return ("id", e["args"][0])
    if k == "Class":
        return ("class", e["args"][0])
    if k == "AttributeExists":
        return ("has", e["args"][0])
    if k == "AttributeComparisonExpr":
        a = e["args"][0]
        cs = a["case_sensitivity"]["_"]
        # elements of the model are HTML elements in an HTML document
        ci = cs in ("AsciiCaseInsensitive", "AsciiCaseInsensitiveIfInHtmlElementInHtmlDocument")
        return ("attr", a["name"], OPS[a["operator"]], a["value"], ci)
    raise ValueError("unknown Ast expression %r" % k)


def impl_pred(ctx, node, p):
    xs = []
    for e in node["predicate"]["on_tag_name_exprs"] + node["predicate"]["on_attr_exprs"]:
        v = ctx.leaf(impl_leaf(e["simple_expr"]), p)
        xs.append(ctx.not_(v) if e["negation"] else v)
    return ctx.and_(xs)


def impl_match(ctx, ast, match_id, d):
    """does the Ast report match_id for the element at chain position d"""
    results = []

    def walk(node, R):
        # R[p] = the path from a root node down to `node` is satisfied with `node` at position p
        if match_id in dense_set_ids(node["match_ids"]):
            results.append(R[d])
        for ch in node["children"]:
            Rc = [ctx.not_(ctx.true())] + [ctx.and_([impl_pred(ctx, ch, p), R[p - 1]]) for p in range(1, d + 1)]
            walk(ch, Rc)
        for ds in node["descendants"]:
            Rd = [ctx.not_(ctx.true())] + [ctx.and_([impl_pred(ctx, ds, p), ctx.or_([R[q] for q in range(p)])]) for p in range(1, d + 1)]
            walk(ds, Rd)

    for root in ast["root"]:
        walk(root, [impl_pred(ctx, root, p) for p in range(d + 1)])
    return ctx.or_(results)


# ------------------------------------------------------------------------------------------------
# selector population (bounded-exhaustive over a small grammar)
def simples(tier):
    base = [("type", "a"), ("type", "B"), ("univ",), ("id", "a"), ("class", "a"), ("has", "x"), ("has", "X"),
            ("attr", "x", "=", "a", None), ("attr", "x", "~=", "a", None), ("attr", "x", "|=", "a", None),
            ("attr", "x", "^=", "a", None), ("attr", "x", "$=", "a", None), ("attr", "x", "*=", "a", None),
            ("attr", "x", "=", "a", "i"), ("attr", "X", "=", "A", "s"), ("attr", "x", "~=", "A", "i"),
            ("nth", "child", 0, 2, ":nth-child(2)"), ("nth", "child", 2, 1, ":nth-child(2n+1)"),
            ("nth", "of-type", 0, 2, ":nth-of-type(2)"), ("nth", "child", 0, 1, ":first-child"),
            ("nth", "of-type", 0, 1, ":first-of-type"), ("nth", "child", -1, 2, ":nth-child(-n+2)"),
            ("nth", "child", 2, 0, ":nth-child(even)")]
    if tier == "thorough":
        base += [("type", "p"), ("id", "A"), ("class", "b"), ("attr", "class", "~=", "a", None), ("attr", "id", "=", "a", "i"),
                 ("attr", "x", "^=", "", None), ("attr", "x", "*=", "b", "i"), ("attr", "x", "|=", "A", "i"),
                 ("nth", "of-type", 2, 1, ":nth-of-type(odd)"), ("nth", "child", 1, 2, ":nth-child(n+2)"),
                 ("nth", "of-type", -1, 3, ":nth-of-type(-n+3)")]
    return base


def compounds(tier):
    S = simples(tier)
    small = [("type", "a"), ("class", "a"), ("has", "x"), ("nth", "child", 0, 1, ":first-child"), ("id", "a")]
    out = [[s] for s in S]
    for a, b in itertools.combinations(small, 2):
        out.append([a, b])
    # negations: simple, compound (F1), list, nested
    nots = []
    for s in (S if tier == "thorough" else S[:12]):
        nots.append([("not", [[s]])])
    for a, b in itertools.combinations(small[:4], 2):
        nots.append([("not", [[a, b]])])       # compound argument
        nots.append([("not", [[a], [b]])])     # list argument
        nots.append([("type", "a"), ("not", [[b]])])
    nots.append([("not", [[("not", [[("type", "a")]])]])])
    nots.append([("not", [[("not", [[("type", "a")], [("class", "a")]])]])])
    nots.append([("not", [[("not", [[("type", "a"), ("class", "a")]])]])])
    nots.append([("not", [[("type", "a")]]), ("not", [[("class", "a")]])])
    return out + nots


def population(tier):
    """list of batches; a batch = list of selectors (own trees) registered together in one Ast"""
    C = compounds(tier)
    batches = [[[[c]]] for c in C]  # single compound selectors
    few = [[("type", "a")], [("type", "b")], [("univ",)], [("class", "a")], [("nth", "child", 0, 1, ":first-child")],
           [("not", [[("type", "a")]])], [("type", "p"), ("has", "x")]]
    for a, b in itertools.product(few, few):
        for comb in (">", " "):
            batches.append([[[a, (comb, b)]]])
    three = few[:4]
    for a, b, c in itertools.product(three, three, three):
        for c1, c2 in itertools.product((">", " "), (">", " ")):
            if tier == "thorough" or (zlib.crc32(repr((a, b, c, c1, c2)).encode()) % 4 == 0):
                batches.append([[[a, (c1, b), (c2, c)]]])
    # selector lists
    for a, b in itertools.combinations(few, 2):
        batches.append([[[a], [b]]])
        batches.append([[[a, (">", b)], [b]]])
    # selectors that differ in one attribute detail only, registered together / as a list: nodes must not be merged
    attr_variants = [("attr", "x", "^=", "a", None), ("attr", "x", "$=", "a", None), ("attr", "x", "=", "a", None),
                     ("attr", "x", "=", "a", "i"), ("attr", "x", "~=", "a", None), ("attr", "x", "=", "b", None),
                     ("attr", "id", "=", "a", None), ("has", "x"), ("id", "a"), ("class", "a")]
    for a, b in itertools.combinations(attr_variants, 2):
        batches.append([[[[("type", "p"), a]]], [[[("type", "p"), b]]]])
        batches.append([[[[("type", "p"), a]], [[("type", "p"), b]]]])
        batches.append([[[[("type", "a")], (">", [a])]], [[[("type", "a")], (">", [b])]]])
    nth_variants = [("nth", "child", 0, 2, ":nth-child(2)"), ("nth", "of-type", 0, 2, ":nth-of-type(2)"),
                    ("nth", "child", 2, 0, ":nth-child(2n)"), ("nth", "child", 0, 1, ":first-child")]
    for a, b in itertools.combinations(nth_variants, 2):
        batches.append([[[[("type", "a"), a]]], [[[("type", "a"), b]]]])
    # a child-combinator selector whose right side needs attributes next to a descendant-combinator selector whose
    # right side does not (the VM bails out for attributes in the jumps and must still run the hereditary jumps)
    attrish = [[("class", "a")], [("id", "a")], [("has", "x")], [("attr", "x", "=", "a", None)]]
    plain = [[("type", "b")], [("type", "p")], [("univ",)], [("nth", "child", 0, 1, ":first-child")]]
    for l, c1, c2 in itertools.product([[("type", "a")], [("type", "p")]], attrish, plain):
        batches.append([[[l, (">", c1)]], [[l, (" ", c2)]]])
        batches.append([[[l, (" ", c1)]], [[l, (">", c2)]]])
    for c1, c2 in itertools.product(attrish[:2], plain[:2]):
        batches.append([[[[("type", "a")], (" ", c1), (">", c2)]]])
        batches.append([[[[("type", "a")], (">", c1), (" ", c2)]], [[[("type", "a")], (" ", c2)]]])
    # several selectors in one Ast (prefix sharing; result must not depend on the others)
    for a, b in itertools.product(few[:5], few[:5]):
        batches.append([[[a, (">", b)]], [[a, (" ", b)]], [[a]]])
        batches.append([[[a, (">", b)]], [[a, (">", b)]]])
        batches.append([[[a]], [[b]], [[a, (" ", b), (">", a)]]])
    return batches
