"""`check.py <ID> --replay <path>`: re-run a stored counterexample natively against /repo's current tree."""
import os
import re

from . import kani
from .common import log, EXIT_OK, EXIT_VIOLATION, EXIT_INCONCLUSIVE


def run(prop, path):
    if not os.path.isfile(path):
        log("no such replay file: %s" % path)
        return EXIT_INCONCLUSIVE
    text = open(path).read()
    if path.endswith(".json") or text.lstrip().startswith("{"):
        from . import engine_z
        return engine_z.replay_file(prop, path)
    m = re.search(r"VERIF-REPLAY property=(\S+) harness=(\S+) rel=(\S+) tier=(\S+)", text)
    if not m:
        log("not a Kani playback replay file")
        return EXIT_INCONCLUSIVE
    full, rel, tier = m.group(2), m.group(3), m.group(4)
    name = full.split("::")[-1]
    allh = [h for h in kani.discover() if h.full == full]
    if not allh:
        log("harness %s no longer exists in the overlay" % full)
        return EXIT_INCONCLUSIVE
    h = allh[0]
    test_src = text[text.index("\n", text.index("// failed:")) + 1:] if "// failed:" in text else text
    from check import required_files, pre_generate
    pre_generate(tier)
    files = required_files([h])
    reproduced, rlog = kani.native_replay(files, h, test_src, tier)
    log(rlog[-3000:])
    if reproduced:
        log("VIOLATION property=%s replay=%s" % (prop, path))
        return EXIT_VIOLATION
    log("replay did not reproduce on the current tree")
    return EXIT_OK
