"""Shared helpers for the /verif driver: paths, scratch copies of /repo, subprocess wrappers."""
import json
import os
import shutil
import signal
import subprocess
import sys
import time

REPO = os.environ.get("VERIF_REPO", "/repo")
VERIF = os.path.dirname(os.path.dirname(os.path.abspath(__file__)))
OVERLAY = os.path.join(VERIF, "overlay")
SHIM = os.path.join(VERIF, "shims", "memchr")
SHIM_HASHBROWN = os.path.join(VERIF, "shims", "hashbrown")
CACHE = os.path.join(VERIF, ".cache")
EVIDENCE = os.path.join(VERIF, "evidence")
REPLAY = os.path.join(VERIF, "replay")

EXIT_OK, EXIT_VIOLATION, EXIT_INCONCLUSIVE = 0, 1, 2


def log(*a):
    print(*a, flush=True)


def scratch_root():
    return os.environ.get("VERIF_SCRATCH") or "/var/tmp"


def offline_env(extra=None):
    env = dict(os.environ)
    env["CARGO_NET_OFFLINE"] = "true"
    env.pop("RUSTFLAGS", None)
    env.pop("CARGO_TARGET_DIR", None)
    if extra:
        env.update(extra)
    return env


class Scratch:
    """A throw-away copy of /repo's *current working tree* (no target/, no .git)."""

    def __init__(self, tag, with_tests=False):
        self.dir = os.path.join(scratch_root(), "lolhtml-verif.%s.%d" % (tag, os.getpid()))
        self.src = os.path.join(self.dir, "w")
        self.tgt = os.path.join(self.dir, "tgt")
        self.with_tests = with_tests

    def __enter__(self):
        shutil.rmtree(self.dir, ignore_errors=True)
        os.makedirs(self.src)
        excl = ["target", ".git", "fuzz", "js-api", "media", "c-api", "examples"]
        if not self.with_tests:
            excl.append("tests")
        cmd = ["rsync", "-a"] + sum((["--exclude", "/" + e] for e in excl), []) + [REPO + "/", self.src + "/"]
        subprocess.run(cmd, check=True)
        cfgdir = os.path.join(self.src, ".cargo")
        os.makedirs(cfgdir, exist_ok=True)
        with open(os.path.join(cfgdir, "config.toml"), "w") as f:
            f.write("[net]\noffline = true\n")
        # make the scratch copy its own workspace root (so that a parent Cargo.toml never matters)
        ct = os.path.join(self.src, "Cargo.toml")
        s = open(ct).read()
        if "[workspace]" not in s:
            s += "\n[workspace]\n"
        open(ct, "w").write(s)
        self._old = {}
        for sig in (signal.SIGTERM, signal.SIGINT):
            try:
                self._old[sig] = signal.signal(sig, self._on_signal)
            except Exception:
                pass
        return self

    def _on_signal(self, signum, frame):
        self.cleanup()
        sys.exit(EXIT_INCONCLUSIVE)

    def cleanup(self):
        if os.environ.get("VERIF_KEEP_SCRATCH"):
            log("[scratch kept at %s]" % self.dir)
            return
        shutil.rmtree(self.dir, ignore_errors=True)

    def __exit__(self, *exc):
        self.cleanup()
        for sig, h in self._old.items():
            try:
                signal.signal(sig, h)
            except Exception:
                pass
        return False

    def patch_memchr(self):
        ct = os.path.join(self.src, "Cargo.toml")
        with open(ct, "a") as f:
            f.write('\n[patch.crates-io]\nmemchr = { path = "%s" }\nhashbrown = { path = "%s" }\n' % (SHIM, SHIM_HASHBROWN))

    def parent_module_file(self, rel):
        """For overlay file src/a/b/verif_kani.rs return the file of module a::b."""
        d = os.path.dirname(rel)  # src/a/b
        cand1 = os.path.join(self.src, d + ".rs")
        cand2 = os.path.join(self.src, d, "mod.rs")
        if d == "src":
            return os.path.join(self.src, "src", "lib.rs")
        if os.path.isfile(cand1):
            return cand1
        if os.path.isfile(cand2):
            return cand2
        return None

    def install_overlay(self, files, tier="quick", cfg_attr="kani", transform=None):
        """Copy overlay files (paths relative to /verif/overlay) into the scratch copy as child
        modules of the module they verify. Returns list of (rel, module_path)."""
        installed = []
        for rel in files:
            parent = self.parent_module_file(rel)
            if parent is None:
                raise OverlayError("parent module for overlay %s no longer exists in /repo" % rel)
            dst = os.path.join(self.src, rel)
            os.makedirs(os.path.dirname(dst), exist_ok=True)
            text = open(os.path.join(OVERLAY, rel)).read()
            text = apply_tier(text, tier)
            if transform:
                text = transform(rel, text)
            open(dst, "w").write(text)
            modname = os.path.splitext(os.path.basename(rel))[0]
            with open(parent, "a") as f:
                f.write("\n#[cfg(%s)]\npub(crate) mod %s;\n" % (cfg_attr, modname))
            installed.append((rel, module_path(rel)))
        return installed


class OverlayError(Exception):
    pass


def module_path(rel):
    """src/memory/arena/verif_kani.rs -> memory::arena::verif_kani"""
    parts = rel.split("/")
    assert parts[0] == "src"
    parts = parts[1:]
    parts[-1] = os.path.splitext(parts[-1])[0]
    return "::".join(parts)


import re

_THOROUGH = re.compile(r"^(?P<pre>.*?)(?P<num>\d+)(?P<post>[^\d\n]*)//\s*@thorough\s+(?P<val>\d+)\s*$", re.M)


def apply_tier(text, tier):
    """Lines of the form `const N: usize = 4; // @thorough 6` or `#[kani::unwind(6)] // @thorough 8`
    get the last number before the comment replaced in the thorough tier."""
    if os.environ.get("VERIF_BOUNDS"):
        tier = os.environ["VERIF_BOUNDS"]
    if tier != "thorough":
        return text

    def sub(m):
        return "%s%s%s// (thorough; quick=%s)" % (m.group("pre"), m.group("val"), m.group("post"), m.group("num"))

    return _THOROUGH.sub(sub, text)


def repo_state():
    try:
        head = subprocess.run(["git", "-C", REPO, "rev-parse", "HEAD"], capture_output=True, text=True).stdout.strip()
        dirty = subprocess.run(["git", "-C", REPO, "status", "--porcelain", "--untracked-files=no"], capture_output=True, text=True).stdout.strip()
        return {"head": head, "dirty": bool(dirty)}
    except Exception:
        return {"head": "unknown", "dirty": True}


def write_json(path, obj):
    os.makedirs(os.path.dirname(path), exist_ok=True)
    tmp = path + ".tmp"
    with open(tmp, "w") as f:
        json.dump(obj, f, indent=1, sort_keys=False)
        f.write("\n")
    os.replace(tmp, path)


def now():
    return time.time()
