"""Engine K: run Kani/CBMC harnesses from /verif/overlay over a scratch copy of /repo."""
import glob
import json
import os
import re
import shutil
import subprocess
import threading
import time

from .common import (CACHE, OVERLAY, REPLAY, Scratch, OverlayError, log, module_path, offline_env,
                     EXIT_OK, EXIT_VIOLATION, EXIT_INCONCLUSIVE)

ANNOT = re.compile(r"//\s*@verif\b(.*)$")
FN = re.compile(r"^\s*(?:pub(?:\([^)]*\))?\s+)?fn\s+([A-Za-z0-9_]+)\s*\(")


class Harness:
    def __init__(self, rel, name, props, tier, expect, fns, note, unwind, quick=None):
        self.rel, self.name, self.props, self.tier = rel, name, props, tier
        # properties for which this harness is part of the quick tier (None: all of its properties, if tier=quick)
        self.quick = quick
        self.expect, self.fns, self.note, self.unwind = expect, fns, note, unwind
        self.full = module_path(rel) + "::" + name

    def __repr__(self):
        return "<H %s %s %s>" % (self.full, self.props, self.tier)


def discover(overlay=OVERLAY):
    """Scan overlay sources for #[kani::proof] functions and their `// @verif k=v ...` annotation.
    keys: props=C10,C15  tier=quick|thorough  expect=pass|fail  fns=a::b,c  note=free_text_no_spaces"""
    out = []
    for path in sorted(glob.glob(os.path.join(overlay, "src", "**", "verif_kani*.rs"), recursive=True)):
        rel = os.path.relpath(path, overlay)
        lines = open(path).read().split("\n")
        i = 0
        while i < len(lines):
            if lines[i].strip().startswith("#[kani::proof"):
                # look back for annotation (contiguous comment/attribute lines)
                kv = {}
                j = i - 1
                while j >= 0 and (lines[j].strip().startswith("//") or lines[j].strip().startswith("#[")):
                    m = ANNOT.search(lines[j])
                    if m:
                        for tok in m.group(1).split():
                            if "=" in tok:
                                k, v = tok.split("=", 1)
                                kv.setdefault(k, v)
                    j -= 1
                # look forward for attributes + fn
                unwind = None
                k = i + 1
                name = None
                while k < len(lines):
                    mu = re.search(r"kani::unwind\((\d+)\)", lines[k])
                    if mu:
                        unwind = int(mu.group(1))
                    m = ANNOT.search(lines[k])
                    if m and lines[k].strip().startswith("//"):
                        for tok in m.group(1).split():
                            if "=" in tok:
                                a, b = tok.split("=", 1)
                                kv.setdefault(a, b)
                    mf = FN.match(lines[k])
                    if mf:
                        name = mf.group(1)
                        break
                    k += 1
                if name:
                    default_prop = name.split("_")[0].upper()
                    props = kv.get("props", default_prop).split(",")
                    out.append(Harness(rel, name, props, kv.get("tier", "quick"), kv.get("expect", "pass"),
                                       [f for f in kv.get("fns", "").split(",") if f], kv.get("note", ""), unwind,
                                       quick=[q for q in kv["quick"].split(",") if q] if "quick" in kv else None))
                i = k
            i += 1
    return out


def select(harnesses, prop, tier):
    sel = [h for h in harnesses if prop in h.props]
    if tier == "quick":
        sel = [h for h in sel if (h.quick is not None and (prop in h.quick or prop.startswith("STEP") and h.quick)) or (h.quick is None and h.tier == "quick")]
    return sel


class RssMonitor(threading.Thread):
    """Polls `ps` for cbmc processes and records peak RSS per harness (by mangled-name suffix)."""

    def __init__(self, names):
        super().__init__(daemon=True)
        self.names = names
        self.peak = {}
        self.stop = False

    def run(self):
        while not self.stop:
            try:
                out = subprocess.run(["ps", "-eo", "rss,args"], capture_output=True, text=True).stdout
                for line in out.split("\n"):
                    if "cbmc" not in line:
                        continue
                    parts = line.strip().split(None, 1)
                    if len(parts) < 2:
                        continue
                    rss = int(parts[0])
                    for n in self.names:
                        if n + ".out" in parts[1] or n + "." in parts[1]:
                            if rss > self.peak.get(n, 0):
                                self.peak[n] = rss
            except Exception:
                pass
            time.sleep(2)


def seed_target_dir(tgt):
    """Copy the prebuilt dependency artifacts (built by setup) to avoid ~40 s per run. Optional."""
    seed = os.path.join(CACHE, "kani-deps")
    if os.path.isdir(seed) and not os.path.exists(tgt):
        try:
            subprocess.run(["cp", "-a", seed, tgt], check=True)
            return True
        except Exception:
            shutil.rmtree(tgt, ignore_errors=True)
    return False


BATCH = 24


def run_kani(scratch, harnesses, cap_s, mem_gb, jobs, extra_args=(), stubbing=False, logname="kani"):
    """`cargo kani` over the given harnesses, in batches of BATCH per invocation (the address-space cap also
    applies to kani-compiler, which aborts when it has to generate code for ~60 harnesses at once)."""
    results, build_ok, raws, wall, seeded = {}, True, [], 0.0, False
    for bi in range(0, len(harnesses), BATCH):
        r, ok, raw, w, sd = _run_kani_batch(scratch, harnesses[bi:bi + BATCH], cap_s, mem_gb, jobs, extra_args, stubbing,
                                            "%s%d" % (logname, bi // BATCH))
        results.update(r)
        raws.append(raw)
        wall += w
        seeded = seeded or sd
        if not ok:
            build_ok = False
            break
    for h in harnesses:
        results.setdefault(h.full, {"harness": h.full, "status": "missing", "time_s": None, "checks": 0, "failed": 0,
                                    "covers_sat": 0, "covers_total": 0, "failed_checks": [], "functions": [],
                                    "peak_rss_mb": 0, "unwind": h.unwind, "undetermined": 0, "solver_s": None})
    return results, build_ok, "\n".join(raws), wall, seeded


def _run_kani_batch(scratch, harnesses, cap_s, mem_gb, jobs, extra_args=(), stubbing=False, logname="kani"):
    """One `cargo kani` invocation over the given harnesses. Returns (results dict, build_ok, raw_log)."""
    tgt = scratch.tgt
    seeded = seed_target_dir(tgt)
    outjson = os.path.join(scratch.dir, logname + ".json")
    cmd = ["cargo", "kani", "--target-dir", tgt, "--output-format", "terse", "-Z", "unstable-options",
           "--harness-timeout", str(int(cap_s)), "--export-json", outjson, "--output-into-files", "--exact"]
    if stubbing:
        cmd += ["-Z", "stubbing"]
    if jobs > 1:
        cmd += ["-j", str(jobs)]
    cmd += list(extra_args)
    for h in harnesses:
        cmd += ["--harness", h.full]
    # result files of an earlier batch must not be mistaken for this one's
    shutil.rmtree(os.path.join(tgt, "result_output_dir"), ignore_errors=True)
    shell = "ulimit -v %d; exec %s" % (int(max(mem_gb, 16) * 1024 * 1024), " ".join("'%s'" % c for c in cmd))
    mon = RssMonitor([h.name for h in harnesses])
    mon.start()
    t0 = time.time()
    p = subprocess.run(["bash", "-c", shell], cwd=scratch.src, env=offline_env(), capture_output=True, text=True)
    wall = time.time() - t0
    mon.stop = True
    raw = p.stdout + "\n" + p.stderr
    with open(os.path.join(scratch.dir, logname + ".log"), "w") as f:
        f.write(raw)
    results = {}
    build_ok = "error: could not compile" not in raw and "Failed to execute cargo" not in raw and "error[E" not in raw
    data = None
    if os.path.isfile(outjson):
        try:
            data = json.load(open(outjson))
        except Exception:
            data = None
    term = parse_terse(raw)
    for h in harnesses:
        r = {"harness": h.full, "status": "missing", "time_s": None, "checks": 0, "failed": 0, "covers_sat": 0,
             "covers_total": 0, "failed_checks": [], "functions": [], "peak_rss_mb": round(mon.peak.get(h.name, 0) / 1024, 1),
             "unwind": h.unwind, "undetermined": 0, "solver_s": None}
        t = term.get(h.full)
        if t:
            r.update(t)
        results[h.full] = r
    outdir = os.path.join(tgt, "result_output_dir")
    for h in harnesses:
        fp = os.path.join(outdir, h.full)
        if os.path.isfile(fp):
            txt = open(fp, errors="replace").read()
            r = results[h.full]
            if "VERIFICATION:- SUCCESSFUL" in txt:
                r["status"] = "success"
            elif "CBMC timed out" in txt:
                r["status"] = "timeout"
            elif "run out of memory" in txt:
                r["status"] = "oom"
            elif "VERIFICATION:- FAILED" in txt:
                r["status"] = "failed"
                if "CBMC failed" in txt:
                    r["status"] = "error"
            if re.search(r"- Status: ERROR", txt):
                r["status"] = "error" if r["status"] != "success" else r["status"]
            m = re.search(r"Verification Time: ([0-9.]+)s", txt)
            if m:
                r["time_s"] = float(m.group(1))
            if "unwinding failures" in txt:
                r["unwind_fail"] = True
            if "encountered no panics, but at least one was expected" in txt:
                r["no_expected_panic"] = True
            # cover statements: every one must be SATISFIED (UNSATISFIABLE / UNREACHABLE = vacuous harness)
            cov = re.findall(r"\.cover\.\d+\s*\n\s*- Status: (\w+)", txt)
            if cov:
                r["covers_total_file"] = len(cov)
                r["covers_sat_file"] = sum(1 for c in cov if c == "SATISFIED")
    if data:
        for pd in data.get("property_details", []):
            r = results.get(pd["harness_id"])
            if r:
                d = pd["property_details"]
                r["checks"] = d.get("total_properties") or 0
                r["failed"] = d.get("failed") or 0
                r["undetermined"] = d.get("undetermined") or 0
                r["covers_sat"] = d.get("satisfied") or 0
                r["covers_total"] = (d.get("satisfied") or 0) + (d.get("unsatisfiable") or 0)
        for c in data.get("cbmc", []):
            r = results.get(c["harness_id"])
            if r:
                st = c.get("cbmc_stats") or {}
                r["solver_s"] = st.get("runtime_decision_procedure_s")
                r["symex_s"] = st.get("runtime_symex_s")
                r["vccs"] = st.get("vccs_generated")
        for vr in (data.get("verification_results") or {}).get("results", []):
            r = results.get(vr["harness_id"])
            if not r:
                continue
            fns = set()
            failed = []
            unwind_fail = False
            for c in vr.get("checks", []):
                f = (c.get("location") or {}).get("file", "")
                fn = c.get("function", "")
                if f.startswith("src/") and "verif_kani" not in f and "verif_kani" not in fn:
                    fns.add(fn)
                st = c.get("status", "")
                if st in ("Failure",) or st.upper() == "FAILURE":
                    desc = c.get("description", "")
                    failed.append({"function": fn, "description": desc, "file": f,
                                   "line": (c.get("location") or {}).get("line")})
                    if "unwinding assertion" in desc:
                        unwind_fail = True
            r["functions"] = sorted(fns)
            if failed:
                r["failed_checks"] = failed[:20]
            r["unwind_fail"] = unwind_fail
            if r.get("time_s") is None and vr.get("duration_ms") is not None:
                r["time_s"] = vr["duration_ms"] / 1000.0
    return results, build_ok, raw, wall, seeded


BLOCK_START = re.compile(r"^(?:Thread \d+: ?)?$")


def parse_terse(raw):
    """Parse kani terse output (with or without `Thread N:` prefixes) into per-harness status."""
    res = {}
    cur_by_thread = {}
    lines = raw.split("\n")
    i = 0
    cur_thread = None
    while i < len(lines):
        ln = lines[i]
        m = re.match(r"^(?:Thread (\d+): )?Checking harness (.*)\.\.\.\s*$", ln)
        if m:
            th = m.group(1) or "0"
            cur_by_thread[th] = m.group(2)
            res.setdefault(m.group(2), {"status": "started"})
            if m.group(1) is None:
                cur_thread = "0"
            i += 1
            continue
        m = re.match(r"^Thread (\d+): ?\s*$", ln)
        if m:
            cur_thread = m.group(1)
            i += 1
            continue
        h = cur_by_thread.get(cur_thread) if cur_thread is not None else None
        if h:
            r = res[h]
            if ln.startswith("VERIFICATION:- SUCCESSFUL"):
                r["status"] = "success"
            elif ln.startswith("VERIFICATION:- FAILED"):
                if r.get("status") not in ("timeout", "oom", "error"):
                    r["status"] = "failed"
            elif "CBMC timed out" in ln:
                r["status"] = "timeout"
            elif "run out of memory" in ln:
                r["status"] = "oom"
            elif ln.startswith("CBMC failed"):
                r["status"] = "error"
            elif "[Kani] info: Verification output shows one or more unwinding failures" in ln:
                r["unwind_fail"] = True
            m2 = re.match(r"^Verification Time: ([0-9.]+)s", ln)
            if m2:
                r["time_s"] = float(m2.group(1))
            m3 = re.match(r"^Failed Checks: (.*)$", ln)
            if m3:
                r.setdefault("failed_desc", []).append(m3.group(1))
        i += 1
    # a CBMC error after FAILED line ordering: fix-up
    for h, r in res.items():
        if r.get("status") == "failed" and r.get("time_s") is None:
            pass
    return res


TAGS = re.compile(r"\[((?:C\d\d)(?:,(?:C\d\d))*)\]")


def applies(desc, prop):
    """assertion messages of shared harnesses carry the ids of the properties they express ([C01,C14] ...);
    untagged failures (panics, overflows, index errors inside the real code) count for every property"""
    m = TAGS.search(desc)
    if not m or prop is None or prop.startswith("STEP") or prop in ("SPLIT", "SSPLIT", "EXP"):
        return True
    return prop in m.group(1).split(",")


def classify(h, r, prop=None):
    """Map a harness result to 'ok' | 'violation' | 'inconclusive' with a reason."""
    st = r["status"]
    if h.expect == "fail":
        # vacuity canary: must come back violated
        if st == "failed" and r.get("failed", 0) > 0 and not r.get("unwind_fail"):
            return "ok", "canary violated as required"
        if st == "success":
            return "inconclusive", "vacuity canary passed: the harness family does not reach its assertions"
        return "inconclusive", "canary %s" % st
    if st == "success":
        if "covers_total_file" in r:
            r["covers_total"], r["covers_sat"] = r["covers_total_file"], r["covers_sat_file"]
        if r.get("covers_total", 0) != r.get("covers_sat", 0):
            return "inconclusive", "cover property unsatisfiable (%d of %d): harness is (partly) vacuous on this tree" % (
                r.get("covers_sat", 0), r.get("covers_total", 0))
        if r.get("undetermined", 0):
            return "inconclusive", "undetermined checks"
        return "ok", ""
    if st == "failed" and r.get("no_expected_panic"):
        return "violation", "the documented panic did not occur (#[kani::should_panic] harness ran to completion)"
    if st == "failed":
        real_all = [c for c in r.get("failed_checks", []) if "unwinding assertion" not in c["description"]]
        real = [c for c in real_all if applies(c["description"], prop)]
        if real_all and not real and not r.get("unwind_fail"):
            return "ok", "assertions of other properties failed (%s); none of this property's" % "; ".join(sorted({c["description"][:60] for c in real_all}))
        if r.get("unwind_fail") and not real:
            where = sorted({"%s (%s:%s)" % (c["function"], c["file"], c["line"]) for c in r.get("failed_checks", [])})
            return "inconclusive", "unwinding assertion failed: bound too small for this tree: " + "; ".join(where[:4])
        unsupported = [c for c in real if "is not currently supported by Kani" in c["description"] or "unsupported" in c["description"].lower()]
        if real and len(unsupported) == len(real):
            return "inconclusive", "unsupported construct reached"
        if not real and not r.get("failed"):
            return "inconclusive", "failed without a failed check (tool error)"
        return "violation", "; ".join("%s: %s (%s:%s)" % (c["function"], c["description"], c["file"], c["line"]) for c in real[:3])
    return "inconclusive", st


def should_panic_wrapper(h):
    """native replay of a `#[kani::should_panic]` harness without symbolic inputs: the test FAILS (= reproduces
    the violation) iff the harness body runs to completion without panicking"""
    return ("#[test]\nfn kani_concrete_playback_%s_no_panic() {\n"
            "    let r = std::panic::catch_unwind(|| %s());\n"
            "    assert!(r.is_err(), \"expected the documented panic, but the call returned normally\");\n}\n" % (h.name, h.name))


def concrete_playback(scratch, h, cap_s, mem_gb, stubbing=False, result=None):
    """Re-run one failing harness with concrete playback and return the generated unit test source."""
    if result is not None and result.get("no_expected_panic"):
        return should_panic_wrapper(h), ""
    cmd = ["cargo", "kani", "--target-dir", scratch.tgt, "--output-format", "terse", "-Z", "unstable-options",
           "--harness-timeout", str(int(cap_s)), "-Z", "concrete-playback", "--concrete-playback=print",
           "--exact", "--harness", h.full]
    if stubbing:
        cmd += ["-Z", "stubbing"]
    shell = "ulimit -v %d; exec %s" % (int(mem_gb * 1024 * 1024), " ".join("'%s'" % c for c in cmd))
    p = subprocess.run(["bash", "-c", shell], cwd=scratch.src, env=offline_env(), capture_output=True, text=True)
    raw = p.stdout
    # Kani prints one unit test per failed check AND per satisfied cover: take the one generated for a failed
    # assertion (preferably the one named in `want`), not a cover witness
    blocks = re.findall(r"```\s*\n(.*?)```", raw, re.S)
    if not blocks:
        return None, raw
    want = (result or {}).get("failed_checks") or []
    wanted = [c["description"].strip('"')[:60] for c in want if "unwinding" not in c["description"]]
    best = None
    for b in blocks:
        if "Check for `cover`" in b:
            continue
        if best is None:
            best = b
        if any(w and w in b for w in wanted):
            best = b
            break
    if best is None:
        best = blocks[0]
    return best, raw


def native_replay(files, h, test_src, tier):
    """Build the playback test natively (cfg(kani) through `cargo kani playback`) in a fresh scratch copy
    WITHOUT the memchr shim and run it in dev and release profiles. Returns (reproduced, log)."""
    mtest = re.search(r"fn\s+(kani_concrete_playback_[A-Za-z0-9_]+)", test_src)
    if not mtest:
        return False, "no playback test name"
    tname = mtest.group(1)
    logs = []
    reproduced = False
    with Scratch("replay." + h.name, with_tests=False) as sc:
        def tr(rel, text):
            if rel == h.rel:
                return text + "\n" + test_src + "\n"
            return text
        sc.install_overlay(files, tier=tier, transform=tr)
        # `cargo kani playback` (0.68) has no --release switch: the dev profile (debug assertions and
        # overflow checks on) is the profile Kani models, and is what is replayed.
        cmd = ["cargo", "kani", "playback", "-Z", "concrete-playback", "--lib", "--", tname]
        p = subprocess.run(cmd, cwd=sc.src, env=offline_env({"CARGO_TARGET_DIR": sc.tgt}), capture_output=True, text=True)
        out = p.stdout + p.stderr
        logs.append("$ %s\n%s" % (" ".join(cmd), out[-4000:]))
        if re.search(r"test result: FAILED", out) or (tname + " ... FAILED") in out:
            reproduced = True
    return reproduced, "\n".join(logs)


def build_seed():
    """setup: prebuild the dependency artifacts (registry crates + memchr shim) once; check runs copy them.
    Nothing of /repo's own crate is kept: lol_html is rebuilt from the working tree on every run."""
    seed = os.path.join(CACHE, "kani-deps")
    shutil.rmtree(seed, ignore_errors=True)
    os.makedirs(CACHE, exist_ok=True)
    with Scratch("seed") as sc:
        sc.patch_memchr()
        cmd = ["cargo", "kani", "--only-codegen", "--target-dir", sc.tgt]
        p = subprocess.run(cmd, cwd=sc.src, env=offline_env(), capture_output=True, text=True)
        if p.returncode != 0:
            log(p.stdout[-3000:] + p.stderr[-3000:])
            return False
        for d in glob.glob(os.path.join(sc.tgt, "kani", "*", "debug", "build", "lol_html*")) + \
                glob.glob(os.path.join(sc.tgt, "kani", "*", "debug", "incremental")) + \
                glob.glob(os.path.join(sc.tgt, "kani", "*", "debug", "liblol_html*")):
            shutil.rmtree(d, ignore_errors=True) if os.path.isdir(d) else os.remove(d)
        shutil.move(sc.tgt, seed)
    return True
