#!/usr/bin/env python3
"""Round 2: write meta.json for the seeded changes staged under /verif/seeded/<id>/ from logs/campaign2.log
(last result per id and check wins) and logs/confirm2.log."""
import json, os, re
V = "/verif"
NEEDS = {
 "C02-C": "a write() boundary exactly before the LAST character of a look-ahead sequence ('--', 'DOCTYPE', '[CDATA[', ']>', 'PUBLIC', 'SYSTEM', 'SCRIPT')",
 "C02-D": "an end tag with whitespace/attributes between its name and '>', a chunk boundary inside that gap, and already-consumed content before the tag in the same chunk",
 "C04-D": "one of basefont/bgsound/keygen/param followed by a sibling start tag, with a structure-sensitive selector ('>', descendant, :nth-*)",
 "C04-E": ":nth-child/:nth-of-type(An+B) with A < 0 and an element whose index is exactly B",
 "C05-C": "two cooperating handlers: one removes/replaces an outer element's content, another registers an end-tag handler on a descendant",
 "C05-D": ">= 33 selector registrations on one rewriter and an element matched by a low-id and a high-id selector",
 "C06-C": "tag-scan mode, self-closing syntax on an HTML raw-text element (<iframe/>, <title/>, <script/>) not matched by a selector, markup inside it",
 "C06-D": "an observer that keeps the parser lexing across </svg>, </math> or an integration-point end tag, then CDATA or namespace-dependent input",
 "C09-C": "no handlers, a text-mode start tag (<script>, <textarea>, ...) with attributes, a write() boundary between the tag name and '>'",
 "C09-D": "tag-scan mode and a write() boundary while a character-sequence look-ahead is pending (after '<!', inside '<!-', '<!DOC', ']' in CDATA, escaped script data)",
 "C10-C": "finite limit, a selector that needs attributes (bail-out arm) and enough open elements for the stack growth to be refused on that arm",
 "C10-D": "finite limit, a selector, deep nesting AND a token split across writes at the same time (stack need + buffer need > M, each <= M)",
 "C12-C": "a document end handler that returns Err",
 "C12-D": "graceful memory flag off, nothing buffered, a write whose unfinished trailing token exceeds the limit at the first tail buffering, and a handler that would have rewritten it",
 "C16-C": "a start tag with a duplicated attribute name, then remove_attribute(name), then a read",
 "C16-D": "a captured tag straddling two writes with consumed content before it and the split after a completed valued attribute",
}
conf = {}
for l in open(V + "/logs/confirm2.log"):
    m = re.match(r"(\w+) .*?/seeded/(\S+)", l)
    if m:
        conf[m.group(2)] = l.strip().rsplit(" ", 1)[0] if False else m.group(1)
camp = {}
for l in open(V + "/logs/campaign2.log"):
    m = re.match(r"(C\d\d-\S+) check=(C\d\d) exit=(\d+)", l)
    if m:
        camp.setdefault(m.group(1), {})[m.group(2)] = int(m.group(3))
for mid, need in sorted(NEEDS.items()):
    d = os.path.join(V, "seeded", mid)
    if not os.path.isdir(d):
        continue
    res = camp.get(mid, {})
    meta = {
        "id": mid,
        "breaks_property": mid.split("-")[0],
        "origin": "round 2: written by an independent sub-agent that saw only the property record and a scratch worktree of /repo (nothing from /verif)",
        "needs_to_manifest": need,
        "confirmed": {
            "how": "tools/confirm_seeded.sh in a scratch git worktree: demo.rs (as tests/seeded_demo.rs) passes on the clean tree, fails with patch.diff applied; `cargo test --workspace --no-fail-fast --offline` passes with the patch",
            "result": conf.get(mid, "not run"),
        },
        "checks_run": {p: {0: "exit 0 (not detected)", 1: "exit 1 VIOLATION (detected, counterexample replayed natively)", 2: "exit 2 (inconclusive)"}[rc] for p, rc in res.items()},
        "detected_by_quick_tier": any(rc == 1 for rc in res.values()),
        "how_run": "tools/run_seeded_copy.sh <dir> <PROP>: the patch is applied to a scratch git worktree of /repo's HEAD and the property's quick check is pointed at it (VERIF_REPO); equivalent to git -C /repo apply / check / git -C /repo checkout -- . but leaves /repo untouched",
    }
    json.dump(meta, open(os.path.join(d, "meta.json"), "w"), indent=1)
    print(mid, conf.get(mid), res)
