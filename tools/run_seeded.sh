#!/bin/bash
# usage: run_seeded.sh <seeded dir> <PROP> [more PROPs]  — applies the seeded patch to /repo, runs the quick
# check(s), restores /repo. Prints exit codes. Never leaves /repo modified.
D="$1"; shift
cd /repo || exit 2
if [ -n "$(git status --porcelain --untracked-files=no)" ]; then echo "repo not clean"; exit 2; fi
git apply "$D/patch.diff" || { echo "patch does not apply"; exit 2; }
trap 'git -C /repo checkout -- . ' EXIT
for P in "$@"; do
  name="$(basename $(dirname $D))_$(basename $D)"
  python3 /verif/check.py $P --no-evidence > /verif/logs/seeded_${name}_$P.log 2>&1
  rc=$?
  echo "$name check=$P exit=$rc $(grep -c '^VIOLATION' /verif/logs/seeded_${name}_$P.log) violation line(s)"
done
