#!/bin/bash
# usage: confirm_seeded.sh <dir with patch.diff and demo.rs> -> prints CONFIRMED / REJECTED with reasons
# Works in a scratch git worktree of /repo outside /repo and /verif, removed afterwards.
set -u
D="$1"
WT=/tmp/wt-confirm-$$
export CARGO_TARGET_DIR=/var/tmp/seed-confirm-tgt
export CARGO_NET_OFFLINE=true
git -C /repo worktree add -q "$WT" HEAD || exit 2
cp /repo/Cargo.lock "$WT/"
cd "$WT"
res="CONFIRMED"
if ! git apply --check "$D/patch.diff" 2>/dev/null; then echo "REJECTED patch does not apply"; git -C /repo worktree remove --force "$WT"; exit 1; fi
cp "$D/demo.rs" tests/seeded_demo.rs
# 1. demo passes on the clean tree
if ! cargo test --offline --test seeded_demo >/tmp/confirm_clean.$$ 2>&1; then res="REJECTED demo fails on clean tree"; fi
git apply "$D/patch.diff"
# 2. demo fails with the patch
if cargo test --offline --test seeded_demo >/tmp/confirm_patched.$$ 2>&1; then res="REJECTED demo passes with patch"; fi
grep -E "^test result|panicked" /tmp/confirm_patched.$$ | head -3
# 3. existing suite passes with the patch
rm tests/seeded_demo.rs
if ! cargo test --workspace --no-fail-fast --offline >/tmp/confirm_suite.$$ 2>&1; then res="REJECTED existing suite fails with patch"; fi
grep -E "^test result" /tmp/confirm_suite.$$ | head -2
cd /
git -C /repo worktree remove --force "$WT"
rm -f /tmp/confirm_*.$$
echo "$res $D"
