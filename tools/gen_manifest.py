#!/usr/bin/env python3
"""Regenerate /verif/MANIFEST.json from props_meta.json (single source of per-property text)."""
import json, os
V = os.path.dirname(os.path.dirname(os.path.abspath(__file__)))
meta = json.load(open(os.path.join(V, "props_meta.json")))
na = json.load(open(os.path.join(V, "not_applicable.json")))
checks = []
for pid in sorted(meta):
    m = meta[pid]
    if m.get('internal') or m.get('level_text') == 'tbd':
        continue
    checks.append({
        "property_id": pid,
        "quick_cmd": "python3 /verif/check.py %s --tier quick" % pid,
        "thorough_cmd": "python3 /verif/check.py %s --tier thorough" % pid,
        "evidence_file": "/verif/evidence/%s.json" % pid,
        "replay_cmd_template": "python3 /verif/check.py %s --replay {path}" % pid,
        "engine": "+".join({"K": "kani-overlay", "Z": "z3-selector-tv", "D": "dsl-smt"}[e] for e in m.get("engines", ["K"])),
        "level_claimed": {"category": m["level"], "text": m["level_text"], "design_ref": m.get("design_ref", "DESIGN.md §4 " + pid)},
        "level_note": m["level_note"],
        "technique": m["technique"],
    })
man = {
    "version": 1,
    "setup_cmd": "/verif/setup.sh",
    "hooks": {
        "guard": "cfg(kani) — set only by the Kani compiler; harness modules are overlaid onto a scratch copy of /repo at check time, /repo itself carries no hook code",
        "enable": "check.py rsyncs /repo's working tree to $VERIF_SCRATCH (default /var/tmp), copies /verif/overlay/**/verif_kani*.rs next to the module each verifies, appends `#[cfg(kani)] mod verif_kani;` to that module, patches memchr to /verif/shims/memchr and runs `cargo kani`",
        "baseline_off_cmd": "cd /repo && cargo test --workspace --no-fail-fast --offline",
        "source_commits": [],
        "add_only": True,
    },
    "engines": [
        {"name": "kani-overlay", "path": "/verif/vlib/kani.py + /verif/overlay", "serves_properties": sorted(c["property_id"] for c in checks if "kani" in c["engine"]),
         "kind_free_text": "Kani 0.68 / CBMC 6.11 bounded model checking of the real crate; harnesses are child modules overlaid at check time; regenerated from /repo's working tree on every run"},
    ] + ([{"name": "z3-selector-tv", "path": "/verif/vlib/engine_z.py", "serves_properties": sorted(p for p in meta if "Z" in meta[p].get("engines", [])),
           "kind_free_text": "z3 (cross-checked with cvc5) translation validation: AST produced by the real selector front end vs CSS semantics over a symbolic document spine"}] if any("Z" in meta[p].get("engines", []) for p in meta) else []),
    "checks": checks,
    "notes": open(os.path.join(V, "manifest_notes.txt")).read().strip() if os.path.exists(os.path.join(V, "manifest_notes.txt")) else "",
    "not_applicable": [x for x in na if x["property_id"] not in {c["property_id"] for c in checks}],
}
json.dump(man, open(os.path.join(V, "MANIFEST.json"), "w"), indent=1)
print("MANIFEST.json: %d checks, %d not_applicable" % (len(checks), len(man["not_applicable"])))
