//! Helper for Engine Z (built against a scratch copy of /repo on every run):
//!   zhelper ast <batches.json>      -> for each batch (list of selector strings) the `{:#?}` of the
//!                                      Ast the real front end builds (parse + Ast::add_selector)
//!   zhelper match <cases.json>      -> for each case {selectors:[..], html:".."} the ids (attribute
//!                                      `data-v`) of the elements each selector's handler fired for,
//!                                      through the public rewrite_str API
use lol_html::selectors_vm::Ast;
use lol_html::{element, rewrite_str, RewriteStrSettings};
use serde_json::{json, Value};
use std::cell::RefCell;
use std::rc::Rc;

fn main() {
    let args: Vec<String> = std::env::args().collect();
    let data = std::fs::read_to_string(&args[2]).expect("read input");
    let v: Value = serde_json::from_str(&data).expect("json");
    match args[1].as_str() {
        "ast" => {
            let mut out = Vec::new();
            for batch in v.as_array().unwrap() {
                let mut ast = Ast::default();
                let mut err = Value::Null;
                for (i, s) in batch.as_array().unwrap().iter().enumerate() {
                    match s.as_str().unwrap().parse() {
                        Ok(sel) => ast.add_selector(&sel, i as u32),
                        Err(e) => {
                            err = json!(format!("{e}"));
                            break;
                        }
                    }
                }
                out.push(json!({"debug": format!("{ast:#?}"), "error": err}));
            }
            println!("{}", serde_json::to_string(&out).unwrap());
        }
        "match" => {
            let mut out = Vec::new();
            for case in v.as_array().unwrap() {
                let html = case["html"].as_str().unwrap();
                let sels: Vec<&str> = case["selectors"].as_array().unwrap().iter().map(|s| s.as_str().unwrap()).collect();
                let hits: Rc<RefCell<Vec<Vec<String>>>> = Rc::new(RefCell::new(vec![Vec::new(); sels.len()]));
                let mut settings = RewriteStrSettings::new();
                let mut perr = Value::Null;
                for (i, s) in sels.iter().enumerate() {
                    let hits = hits.clone();
                    match s.parse::<lol_html::Selector>() {
                        Ok(_) => {
                            settings = settings.append_element_content_handler(element!(*s, move |el| {
                                hits.borrow_mut()[i].push(el.get_attribute("data-v").unwrap_or_default());
                                Ok(())
                            }));
                        }
                        Err(e) => perr = json!(format!("{e}")),
                    }
                }
                let res = rewrite_str(html, settings);
                let ok = res.is_ok();
                drop(res);
                out.push(json!({"hits": *hits.borrow(), "ok": ok, "parse_error": perr}));
            }
            println!("{}", serde_json::to_string(&out).unwrap());
        }
        _ => panic!("usage"),
    }
}
