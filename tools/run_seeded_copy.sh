#!/bin/bash
# usage: run_seeded_copy.sh <seeded dir> <PROP> [more PROPs] [-- extra check.py args]
# Like run_seeded.sh, but leaves /repo alone: the patch is applied to a scratch git worktree of /repo's HEAD
# (under /var/tmp, removed afterwards) and the checks are pointed at it with VERIF_REPO. Several of these can
# run side by side. Appends one line per check to /verif/logs/campaign2.log.
D="$(readlink -f "$1")"; shift
name="$(basename "$D")"
WT=/var/tmp/seedwt-$name-$$
git -C /repo worktree add -q --detach "$WT" HEAD || exit 2
cp /repo/Cargo.lock "$WT/" 2>/dev/null
trap 'git -C /repo worktree remove --force "$WT"' EXIT
git -C "$WT" apply "$D/patch.diff" || { echo "$name patch does not apply"; exit 2; }
props=(); extra=()
while [ $# -gt 0 ]; do if [ "$1" = "--" ]; then shift; extra=("$@"); break; fi; props+=("$1"); shift; done
mkdir -p /verif/logs
for P in "${props[@]}"; do
  VERIF_REPO="$WT" python3 /verif/check.py $P --no-evidence "${extra[@]}" > /verif/logs/seeded2_${name}_$P.log 2>&1
  rc=$?
  echo "$name check=$P exit=$rc $(grep -c '^VIOLATION' /verif/logs/seeded2_${name}_$P.log) violation line(s)" | tee -a /verif/logs/campaign2.log
done
