#!/usr/bin/env python3
"""Copy confirmed seeded mutants from the staging area into /verif/seeded/<id>/ with meta.json."""
import json, os, re, shutil, sys
SRC = "/var/tmp/seeded_in"
DST = "/verif/seeded"
camp = {}
for l in open("/verif/logs/campaign.log"):
    m = re.match(r"(C\d\d)_(\S+) check=(C\d\d) exit=(\d+)", l)
    if m:
        camp.setdefault(m.group(1) + "-" + m.group(2), {})[m.group(3)] = int(m.group(4))
NEEDS = json.load(open("/verif/tools/seeded_needs.json")) if os.path.exists("/verif/tools/seeded_needs.json") else {}
for prop in sorted(os.listdir(SRC)):
    pd = os.path.join(SRC, prop)
    if not os.path.isdir(pd):
        continue
    for v in sorted(os.listdir(pd)):
        d = os.path.join(pd, v)
        if not os.path.isfile(os.path.join(d, "patch.diff")):
            continue
        mid = "%s-%s" % (prop, v)
        out = os.path.join(DST, mid)
        os.makedirs(out, exist_ok=True)
        shutil.copy(os.path.join(d, "patch.diff"), out)
        shutil.copy(os.path.join(d, "demo.rs"), out)
        if os.path.exists(os.path.join(d, "notes.md")):
            shutil.copy(os.path.join(d, "notes.md"), out)
        res = camp.get(mid, {})
        meta = {
            "id": mid,
            "breaks_property": prop,
            "origin": "written by an independent sub-agent that saw only the property text and a scratch worktree of /repo (nothing from /verif)",
            "needs_to_manifest": NEEDS.get(mid, "see notes.md"),
            "confirmed": {
                "how": "tools/confirm_seeded.sh in a scratch git worktree: demo.rs (as tests/seeded_demo.rs) passes on the clean tree, fails with patch.diff applied; `cargo test --workspace --no-fail-fast --offline` passes with the patch",
                "result": "CONFIRMED",
            },
            "checks_run": {p: {0: "exit 0 (not detected)", 1: "exit 1 VIOLATION (detected, counterexample replayed natively)", 2: "exit 2 (inconclusive)"}[rc] for p, rc in res.items()},
            "detected_by_quick_tier": any(rc == 1 for rc in res.values()),
            "how_run": "tools/run_seeded.sh <dir> <PROP>: git -C /repo apply patch.diff; python3 /verif/check.py <PROP>; git -C /repo checkout -- .",
        }
        json.dump(meta, open(os.path.join(out, "meta.json"), "w"), indent=1)
        print(mid, res)
