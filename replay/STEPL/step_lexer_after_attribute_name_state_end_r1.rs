// VERIF-REPLAY property=STEPL harness=parser::lexer::verif_kani_steps_gen::step_lexer_after_attribute_name_state_end_r1 rel=src/parser/lexer/verif_kani_steps_gen.rs tier=thorough
// failed: parser::lexer::verif_kani_steps::post_step::<parser::lexer::verif_kani_steps_gen::T, 4>: "[C01,C14,C16] the successor state's representation invariant holds" (src/parser/lexer/verif_kani_steps.rs:510)
/// Test generated for harness `parser::lexer::verif_kani_steps_gen::step_lexer_after_attribute_name_state_end_r1` 
///
/// Check for `assertion`: ""[C01,C14,C16] the successor state's representation invariant holds""

#[test]
fn kani_concrete_playback_step_lexer_after_attribute_name_state_end_r1_4876369605112691922() {
    let concrete_vals: Vec<Vec<u8>> = vec![
        // 255
        vec![255],
        // 255
        vec![255],
        // 255
        vec![255],
        // 255
        vec![255],
        // 0ul
        vec![0, 0, 0, 0, 0, 0, 0, 0],
        // 18446744073709551615ul
        vec![255, 255, 255, 255, 255, 255, 255, 255],
        // 1
        vec![1],
        // 1
        vec![1],
        // 1
        vec![1],
        // 161
        vec![161],
        // 255
        vec![255],
        // 111
        vec![111],
        // 111
        vec![111],
        // 2ul
        vec![2, 0, 0, 0, 0, 0, 0, 0],
        // 3ul
        vec![3, 0, 0, 0, 0, 0, 0, 0],
        // 255
        vec![255],
        // 111
        vec![111],
        // 111
        vec![111],
        // 9223372036854775807ul
        vec![255, 255, 255, 255, 255, 255, 255, 127],
        // 1
        vec![1],
    ];
    kani::concrete_playback_run(concrete_vals, step_lexer_after_attribute_name_state_end_r1);
}
