// VERIF-REPLAY property=STEPL harness=parser::lexer::verif_kani_steps_gen::step_lexer_before_attribute_name_state_end_r1 rel=src/parser/lexer/verif_kani_steps_gen.rs tier=thorough
// failed: parser::lexer::verif_kani_steps::post_step::<parser::lexer::verif_kani_steps_gen::T, 4>: "[C02,C14,C16] the re-based state satisfies the representation invariant over the rest of the chunk" (src/parser/lexer/verif_kani_steps.rs:544)
/// Test generated for harness `parser::lexer::verif_kani_steps_gen::step_lexer_before_attribute_name_state_end_r1` 
///
/// Check for `cover`: "cover condition: out == OUT_OK"

#[test]
fn kani_concrete_playback_step_lexer_before_attribute_name_state_end_r1_12057677831559237967() {
    let concrete_vals: Vec<Vec<u8>> = vec![
        // 255
        vec![255],
        // 255
        vec![255],
        // 255
        vec![255],
        // 47
        vec![47],
        // 0ul
        vec![0, 0, 0, 0, 0, 0, 0, 0],
        // 0ul
        vec![0, 0, 0, 0, 0, 0, 0, 0],
        // 0
        vec![0],
        // 1
        vec![1],
        // 1
        vec![1],
        // 161
        vec![161],
        // 255
        vec![255],
        // 97
        vec![97],
        // 53
        vec![53],
        // 2ul
        vec![2, 0, 0, 0, 0, 0, 0, 0],
        // 3ul
        vec![3, 0, 0, 0, 0, 0, 0, 0],
        // 255
        vec![255],
        // 40
        vec![40],
        // 52
        vec![52],
        // 1ul
        vec![1, 0, 0, 0, 0, 0, 0, 0],
        // 0
        vec![0],
    ];
    kani::concrete_playback_run(concrete_vals, step_lexer_before_attribute_name_state_end_r1);
}
