// VERIF-REPLAY property=C06 harness=parser::tag_scanner::verif_kani_steps_gen::step_scanner_tag_name_state rel=src/parser/tag_scanner/verif_kani_steps_gen.rs tier=quick
// failed: parser::tag_scanner::verif_kani_steps::post_step::<parser::tag_scanner::verif_kani_steps_gen::T, 4>: "[C06] the end-tag marker is reset when the tag name is complete, whatever the hand-over reason" (src/parser/tag_scanner/verif_kani_steps.rs:290)
/// Test generated for harness `parser::tag_scanner::verif_kani_steps_gen::step_scanner_tag_name_state` 
///
/// Check for `assertion`: ""[C06] the end-tag marker is reset when the tag name is complete, whatever the hand-over reason""

#[test]
fn kani_concrete_playback_step_scanner_tag_name_state_10508758577468472800() {
    let concrete_vals: Vec<Vec<u8>> = vec![
        // 60
        vec![60],
        // 60
        vec![60],
        // 32
        vec![32],
        // 32
        vec![32],
        // 4ul
        vec![4, 0, 0, 0, 0, 0, 0, 0],
        // 3ul
        vec![3, 0, 0, 0, 0, 0, 0, 0],
        // 1
        vec![1],
        // 1
        vec![1],
        // 0ul
        vec![0, 0, 0, 0, 0, 0, 0, 0],
        // 0
        vec![0],
        // 2ul
        vec![2, 0, 0, 0, 0, 0, 0, 0],
        // 1
        vec![1],
        // 255
        vec![255],
        // 54
        vec![54],
        // 123
        vec![123],
        // 1
        vec![1],
        // 50
        vec![50],
        // 0
        vec![0],
        // 0
        vec![0],
        // 0
        vec![0],
        // 116
        vec![116],
        // 1
        vec![1],
        // 163
        vec![163],
    ];
    kani::concrete_playback_run(concrete_vals, step_scanner_tag_name_state);
}
