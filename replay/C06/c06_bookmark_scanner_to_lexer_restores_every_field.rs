// VERIF-REPLAY property=C06 harness=parser::lexer::verif_kani_bookmark::c06_bookmark_scanner_to_lexer_restores_every_field rel=src/parser/lexer/verif_kani_bookmark.rs tier=quick
// failed: parser::lexer::verif_kani_bookmark::c06_bookmark_scanner_to_lexer_restores_every_field: "[C06] CDATA permission survives the mode switch" (src/parser/lexer/verif_kani_bookmark.rs:41)
/// Test generated for harness `parser::lexer::verif_kani_bookmark::c06_bookmark_scanner_to_lexer_restores_every_field` 
///
/// Check for `assertion`: ""[C06] CDATA permission survives the mode switch""

#[test]
fn kani_concrete_playback_c06_bookmark_scanner_to_lexer_restores_every_field_2111253988407654298() {
    let concrete_vals: Vec<Vec<u8>> = vec![
        // 0
        vec![0],
        // 0
        vec![0],
        // 0
        vec![0],
        // 128
        vec![128],
        // 0
        vec![0],
        // 1
        vec![1],
        // 0
        vec![0],
        // 0
        vec![0],
        // 0ul
        vec![0, 0, 0, 0, 0, 0, 0, 0],
        // 0ul
        vec![0, 0, 0, 0, 0, 0, 0, 0],
    ];
    kani::concrete_playback_run(concrete_vals, c06_bookmark_scanner_to_lexer_restores_every_field);
}
