// VERIF-REPLAY property=C06 harness=parser::tag_scanner::verif_kani_steps_gen::step_scanner_rcdata_end_tag_name_state rel=src/parser/tag_scanner/verif_kani_steps_gen.rs tier=quick
// failed: parser::tag_scanner::verif_kani_steps::post_step::<parser::tag_scanner::verif_kani_steps_gen::T, 4>: "[C06] the end-tag marker is reset when the tag name is complete, whatever the hand-over reason" (src/parser/tag_scanner/verif_kani_steps.rs:290)
/// Test generated for harness `parser::tag_scanner::verif_kani_steps_gen::step_scanner_rcdata_end_tag_name_state` 
///
/// Check for `assertion`: ""[C06] the end-tag marker is reset when the tag name is complete, whatever the hand-over reason""

#[test]
fn kani_concrete_playback_step_scanner_rcdata_end_tag_name_state_12630770483730313551() {
    let concrete_vals: Vec<Vec<u8>> = vec![
        // 60
        vec![60],
        // 61
        vec![61],
        // 60
        vec![60],
        // 47
        vec![47],
        // 4ul
        vec![4, 0, 0, 0, 0, 0, 0, 0],
        // 3ul
        vec![3, 0, 0, 0, 0, 0, 0, 0],
        // 0
        vec![0],
        // 1
        vec![1],
        // 0ul
        vec![0, 0, 0, 0, 0, 0, 0, 0],
        // 0
        vec![0],
        // 2ul
        vec![2, 0, 0, 0, 0, 0, 0, 0],
        // 1
        vec![1],
        // 3
        vec![3],
        // 107
        vec![107],
        // 58
        vec![58],
        // 1
        vec![1],
        // 91
        vec![91],
        // 0
        vec![0],
        // 0
        vec![0],
        // 0
        vec![0],
        // 191
        vec![191],
        // 0
        vec![0],
        // 143
        vec![143],
    ];
    kani::concrete_playback_run(concrete_vals, step_scanner_rcdata_end_tag_name_state);
}
