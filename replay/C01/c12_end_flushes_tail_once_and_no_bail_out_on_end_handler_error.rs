// VERIF-REPLAY property=C01 harness=transform_stream::verif_kani::c12_end_flushes_tail_once_and_no_bail_out_on_end_handler_error rel=src/transform_stream/verif_kani.rs tier=quick
// failed: transform_stream::verif_kani::c12_end_flushes_tail_once_and_no_bail_out_on_end_handler_error: "[C01,C11] the held-back tail is emitted exactly once at end()" (src/transform_stream/verif_kani.rs:128)
/// Test generated for harness `transform_stream::verif_kani::c12_end_flushes_tail_once_and_no_bail_out_on_end_handler_error` 
///
/// Check for `assertion`: ""[C01,C11] the held-back tail is emitted exactly once at end()""

#[test]
fn kani_concrete_playback_c12_end_flushes_tail_once_and_no_bail_out_on_end_handler_error_8086141909648049372() {
    let concrete_vals: Vec<Vec<u8>> = vec![
        // 0
        vec![0],
        // 0
        vec![0],
        // 0
        vec![0],
    ];
    kani::concrete_playback_run(concrete_vals, c12_end_flushes_tail_once_and_no_bail_out_on_end_handler_error);
}
