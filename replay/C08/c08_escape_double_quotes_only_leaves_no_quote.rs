// VERIF-REPLAY property=C08 harness=html::verif_kani_escape::c08_escape_double_quotes_only_leaves_no_quote rel=src/html/verif_kani_escape.rs tier=quick
// failed: html::verif_kani_escape::c08_escape_double_quotes_only_leaves_no_quote: assertion failed: o + 6 <= len (src/html/verif_kani_escape.rs:81); html::verif_kani_escape::c08_escape_double_quotes_only_leaves_no_quote: assertion failed: out[o + t] == q[t] (src/html/verif_kani_escape.rs:84)
/// Test generated for harness `html::verif_kani_escape::c08_escape_double_quotes_only_leaves_no_quote` 
///
/// Check for `assertion`: "assertion failed: o + 6 <= len"

#[test]
fn kani_concrete_playback_c08_escape_double_quotes_only_leaves_no_quote_15666180039931944403() {
    let concrete_vals: Vec<Vec<u8>> = vec![
        // 34
        vec![34],
        // 35
        vec![35],
        // 35
        vec![35],
        // 35
        vec![35],
        // 4ul
        vec![4, 0, 0, 0, 0, 0, 0, 0],
    ];
    kani::concrete_playback_run(concrete_vals, c08_escape_double_quotes_only_leaves_no_quote);
}
