// VERIF-REPLAY property=C10 harness=memory::arena::verif_kani::c10_arena_init_with rel=src/memory/arena/verif_kani.rs tier=quick
// failed: memory::arena::verif_kani::c10_arena_init_with: assertion failed: arena.data.capacity() <= max (src/memory/arena/verif_kani.rs:115)
/// Test generated for harness `memory::arena::verif_kani::c10_arena_init_with` 
///
/// Check for `assertion`: "assertion failed: arena.data.capacity() <= max"

#[test]
fn kani_concrete_playback_c10_arena_init_with_14528980556856827895() {
    let concrete_vals: Vec<Vec<u8>> = vec![
        // 6ul
        vec![6, 0, 0, 0, 0, 0, 0, 0],
        // 0
        vec![0],
        // 255
        vec![255],
        // 0
        vec![0],
        // 255
        vec![255],
        // 1ul
        vec![1, 0, 0, 0, 0, 0, 0, 0],
        // 0
        vec![0],
        // 255
        vec![255],
        // 255
        vec![255],
        // 0
        vec![0],
        // 4ul
        vec![4, 0, 0, 0, 0, 0, 0, 0],
    ];
    kani::concrete_playback_run(concrete_vals, c10_arena_init_with);
}
