// VERIF-REPLAY property=C10 harness=memory::arena::verif_kani::c10_arena_append_append rel=src/memory/arena/verif_kani.rs tier=quick
// failed: memory::arena::verif_kani::c10_arena_append_append: assertion failed: arena.data.capacity() <= max (src/memory/arena/verif_kani.rs:40); memory::arena::verif_kani::c10_arena_append_append: assertion failed: arena.data.capacity() <= max (src/memory/arena/verif_kani.rs:44)
/// Test generated for harness `memory::arena::verif_kani::c10_arena_append_append` 
///
/// Check for `assertion`: "assertion failed: arena.data.capacity() <= max"

#[test]
fn kani_concrete_playback_c10_arena_append_append_7214454552386663134() {
    let concrete_vals: Vec<Vec<u8>> = vec![
        // 6ul
        vec![6, 0, 0, 0, 0, 0, 0, 0],
        // 2ul
        vec![2, 0, 0, 0, 0, 0, 0, 0],
        // 70
        vec![70],
        // 23
        vec![23],
        // 113
        vec![113],
        // 11
        vec![11],
        // 216
        vec![216],
        // 52
        vec![52],
        // 99
        vec![99],
        // 235
        vec![235],
        // 3ul
        vec![3, 0, 0, 0, 0, 0, 0, 0],
        // 4ul
        vec![4, 0, 0, 0, 0, 0, 0, 0],
    ];
    kani::concrete_playback_run(concrete_vals, c10_arena_append_append);
}
