// VERIF-REPLAY property=C04 harness=selectors_vm::ast::verif_kani::c04_nth_child_has_index_matches_an_plus_b rel=src/selectors_vm/ast/verif_kani.rs tier=quick
// failed: selectors_vm::ast::verif_kani::c04_nth_child_has_index_matches_an_plus_b: assertion failed: got == want (src/selectors_vm/ast/verif_kani.rs:21)
/// Test generated for harness `selectors_vm::ast::verif_kani::c04_nth_child_has_index_matches_an_plus_b` 
///
/// Check for `assertion`: "assertion failed: got == want"

#[test]
fn kani_concrete_playback_c04_nth_child_has_index_matches_an_plus_b_12135414617308970934() {
    let concrete_vals: Vec<Vec<u8>> = vec![
        // 1
        vec![1, 0, 0, 0],
        // -1612709888
        vec![0, 0, 224, 159],
        // 537919488
        vec![0, 0, 16, 32],
    ];
    kani::concrete_playback_run(concrete_vals, c04_nth_child_has_index_matches_an_plus_b);
}
