// VERIF-REPLAY property=C04 harness=selectors_vm::attribute_matcher::verif_kani::c04_attr_suffix rel=src/selectors_vm/attribute_matcher/verif_kani.rs tier=quick
// failed: selectors_vm::attribute_matcher::verif_kani::c04_attr_suffix: assertion failed: got == want (src/selectors_vm/attribute_matcher/verif_kani.rs:190)
/// Test generated for harness `selectors_vm::attribute_matcher::verif_kani::c04_attr_suffix` 
///
/// Check for `assertion`: "assertion failed: got == want"

#[test]
fn kani_concrete_playback_c04_attr_suffix_10649987143142136080() {
    let concrete_vals: Vec<Vec<u8>> = vec![
        // 128
        vec![128],
        // 3
        vec![3],
        // 3
        vec![3],
        // 3
        vec![3],
        // 1ul
        vec![1, 0, 0, 0, 0, 0, 0, 0],
        // 89
        vec![89],
        // 89
        vec![89],
        // 0ul
        vec![0, 0, 0, 0, 0, 0, 0, 0],
        // 128
        vec![128],
        // 1
        vec![1],
        // 255
        vec![255],
    ];
    kani::concrete_playback_run(concrete_vals, c04_attr_suffix);
}
