// VERIF-REPLAY property=C04 harness=selectors_vm::attribute_matcher::verif_kani::c04_attr_prefix rel=src/selectors_vm/attribute_matcher/verif_kani.rs tier=quick
// failed: selectors_vm::attribute_matcher::verif_kani::c04_attr_prefix: assertion failed: got == want (src/selectors_vm/attribute_matcher/verif_kani.rs:175)
/// Test generated for harness `selectors_vm::attribute_matcher::verif_kani::c04_attr_prefix` 
///
/// Check for `assertion`: "assertion failed: got == want"

#[test]
fn kani_concrete_playback_c04_attr_prefix_13253835101761601496() {
    let concrete_vals: Vec<Vec<u8>> = vec![
        // 67
        vec![67],
        // 72
        vec![72],
        // 72
        vec![72],
        // 72
        vec![72],
        // 3ul
        vec![3, 0, 0, 0, 0, 0, 0, 0],
        // 72
        vec![72],
        // 72
        vec![72],
        // 0ul
        vec![0, 0, 0, 0, 0, 0, 0, 0],
        // 99
        vec![99],
        // 0
        vec![0],
        // 255
        vec![255],
    ];
    kani::concrete_playback_run(concrete_vals, c04_attr_prefix);
}
