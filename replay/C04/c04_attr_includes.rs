// VERIF-REPLAY property=C04 harness=selectors_vm::attribute_matcher::verif_kani::c04_attr_includes rel=src/selectors_vm/attribute_matcher/verif_kani.rs tier=quick
// failed: selectors_vm::attribute_matcher::verif_kani::c04_attr_includes: assertion failed: got == (present && found) (src/selectors_vm/attribute_matcher/verif_kani.rs:145)
/// Test generated for harness `selectors_vm::attribute_matcher::verif_kani::c04_attr_includes` 
///
/// Check for `assertion`: "assertion failed: got == (present && found)"

#[test]
fn kani_concrete_playback_c04_attr_includes_10792197013111865831() {
    let concrete_vals: Vec<Vec<u8>> = vec![
        // 47
        vec![47],
        // 32
        vec![32],
        // 46
        vec![46],
        // 32
        vec![32],
        // 0ul
        vec![0, 0, 0, 0, 0, 0, 0, 0],
        // 255
        vec![255],
        // 9
        vec![9],
        // 0ul
        vec![0, 0, 0, 0, 0, 0, 0, 0],
        // 47
        vec![47],
        // 1
        vec![1],
        // 1
        vec![1],
    ];
    kani::concrete_playback_run(concrete_vals, c04_attr_includes);
}
