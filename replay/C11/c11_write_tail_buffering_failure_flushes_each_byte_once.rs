// VERIF-REPLAY property=C11 harness=transform_stream::verif_kani::c11_write_tail_buffering_failure_flushes_each_byte_once rel=src/transform_stream/verif_kani.rs tier=quick
// failed: transform_stream::verif_kani::c11_write_tail_buffering_failure_flushes_each_byte_once: "[C11] no received byte is lost or duplicated on a graceful bail-out" (src/transform_stream/verif_kani.rs:62)
/// Test generated for harness `transform_stream::verif_kani::c11_write_tail_buffering_failure_flushes_each_byte_once` 
///
/// Check for `assertion`: ""[C11] no received byte is lost or duplicated on a graceful bail-out""

#[test]
fn kani_concrete_playback_c11_write_tail_buffering_failure_flushes_each_byte_once_7674186512956653999() {
    let concrete_vals: Vec<Vec<u8>> = vec![
        // 2ul
        vec![2, 0, 0, 0, 0, 0, 0, 0],
        // 1
        vec![1],
        // 1
        vec![1],
    ];
    kani::concrete_playback_run(concrete_vals, c11_write_tail_buffering_failure_flushes_each_byte_once);
}
