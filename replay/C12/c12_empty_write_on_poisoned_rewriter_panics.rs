// VERIF-REPLAY property=C12 harness=rewriter::verif_kani::c12_empty_write_on_poisoned_rewriter_panics rel=src/rewriter/verif_kani.rs tier=quick
// failed: the documented panic did not occur (#[kani::should_panic] harness ran to completion)
#[test]
fn kani_concrete_playback_c12_empty_write_on_poisoned_rewriter_panics_no_panic() {
    let r = std::panic::catch_unwind(|| c12_empty_write_on_poisoned_rewriter_panics());
    assert!(r.is_err(), "expected the documented panic, but the call returned normally");
}
