// VERIF-REPLAY property=C12 harness=transform_stream::dispatcher::verif_kani::c11_bail_out_flush_emits_exactly_the_unemitted_rest rel=src/transform_stream/dispatcher/verif_kani.rs tier=quick
// failed: transform_stream::dispatcher::verif_kani::c11_bail_out_flush_emits_exactly_the_unemitted_rest: assertion failed: d.delegate.output_sink.empty_chunks == 0 (src/transform_stream/dispatcher/verif_kani.rs:187)
/// Test generated for harness `transform_stream::dispatcher::verif_kani::c11_bail_out_flush_emits_exactly_the_unemitted_rest` 
///
/// Check for `assertion`: "assertion failed: d.delegate.output_sink.empty_chunks == 0"

#[test]
fn kani_concrete_playback_c11_bail_out_flush_emits_exactly_the_unemitted_rest_16935084185546655224() {
    let concrete_vals: Vec<Vec<u8>> = vec![
        // 255
        vec![255],
        // 255
        vec![255],
        // 255
        vec![255],
        // 255
        vec![255],
        // 255
        vec![255],
        // 255
        vec![255],
        // 6ul
        vec![6, 0, 0, 0, 0, 0, 0, 0],
        // 6ul
        vec![6, 0, 0, 0, 0, 0, 0, 0],
        // 6ul
        vec![6, 0, 0, 0, 0, 0, 0, 0],
        // 1
        vec![1],
    ];
    kani::concrete_playback_run(concrete_vals, c11_bail_out_flush_emits_exactly_the_unemitted_rest);
}
