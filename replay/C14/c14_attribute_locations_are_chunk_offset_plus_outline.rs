// VERIF-REPLAY property=C14 harness=rewritable_units::tokens::attributes::verif_kani::c14_attribute_locations_are_chunk_offset_plus_outline rel=src/rewritable_units/tokens/attributes/verif_kani.rs tier=quick
// failed: rewritable_units::tokens::attributes::verif_kani::c14_attribute_locations_are_chunk_offset_plus_outline: "[C14] attribute name location is absolute and exact" (src/rewritable_units/tokens/attributes/verif_kani.rs:56)
/// Test generated for harness `rewritable_units::tokens::attributes::verif_kani::c14_attribute_locations_are_chunk_offset_plus_outline` 
///
/// Check for `assertion`: ""[C14] attribute name location is absolute and exact""

#[test]
fn kani_concrete_playback_c14_attribute_locations_are_chunk_offset_plus_outline_2786839716569652883() {
    let concrete_vals: Vec<Vec<u8>> = vec![
        // 151
        vec![151],
        // 123
        vec![123],
        // 156
        vec![156],
        // 156
        vec![156],
        // 156
        vec![156],
        // 156
        vec![156],
        // 2ul
        vec![2, 0, 0, 0, 0, 0, 0, 0],
        // 0ul
        vec![0, 0, 0, 0, 0, 0, 0, 0],
        // 0ul
        vec![0, 0, 0, 0, 0, 0, 0, 0],
        // 0ul
        vec![0, 0, 0, 0, 0, 0, 0, 0],
        // 0ul
        vec![0, 0, 0, 0, 0, 0, 0, 0],
        // 1ul
        vec![1, 0, 0, 0, 0, 0, 0, 0],
        // 3ul
        vec![3, 0, 0, 0, 0, 0, 0, 0],
        // 6ul
        vec![6, 0, 0, 0, 0, 0, 0, 0],
        // 6ul
        vec![6, 0, 0, 0, 0, 0, 0, 0],
        // 6ul
        vec![6, 0, 0, 0, 0, 0, 0, 0],
        // 6ul
        vec![6, 0, 0, 0, 0, 0, 0, 0],
    ];
    kani::concrete_playback_run(concrete_vals, c14_attribute_locations_are_chunk_offset_plus_outline);
}
