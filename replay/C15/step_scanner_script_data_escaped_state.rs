// VERIF-REPLAY property=C15 harness=parser::tag_scanner::verif_kani_steps_gen::step_scanner_script_data_escaped_state rel=src/parser/tag_scanner/verif_kani_steps_gen.rs tier=quick
// failed: parser::tag_scanner::verif_kani_steps::post_step::<parser::tag_scanner::verif_kani_steps_gen::T, 4>: "[C01,C09,C15] the successor state's representation invariant holds" (src/parser/tag_scanner/verif_kani_steps.rs:223)
/// Test generated for harness `parser::tag_scanner::verif_kani_steps_gen::step_scanner_script_data_escaped_state` 
///
/// Check for `assertion`: ""[C01,C09,C15] the successor state's representation invariant holds""

#[test]
fn kani_concrete_playback_step_scanner_script_data_escaped_state_18050292393318567166() {
    let concrete_vals: Vec<Vec<u8>> = vec![
        // 44
        vec![44],
        // 45
        vec![45],
        // 0
        vec![0],
        // 60
        vec![60],
        // 4ul
        vec![4, 0, 0, 0, 0, 0, 0, 0],
        // 3ul
        vec![3, 0, 0, 0, 0, 0, 0, 0],
        // 0
        vec![0],
        // 0
        vec![0],
        // 0
        vec![0],
        // 18446744073709551614ul
        vec![254, 255, 255, 255, 255, 255, 255, 255],
        // 0
        vec![0],
        // 1
        vec![1],
        // 119
        vec![119],
        // 0
        vec![0],
        // 0
        vec![0],
        // 0
        vec![0],
        // 0
        vec![0],
        // 187
        vec![187],
        // 0
        vec![0],
    ];
    kani::concrete_playback_run(concrete_vals, step_scanner_script_data_escaped_state);
}
