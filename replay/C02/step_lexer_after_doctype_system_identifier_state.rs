// VERIF-REPLAY property=C02 harness=parser::lexer::verif_kani_steps_gen::step_lexer_after_doctype_system_identifier_state rel=src/parser/lexer/verif_kani_steps_gen.rs tier=quick
// failed: parser::lexer::verif_kani_steps::post_step::<parser::lexer::verif_kani_steps_gen::T, 4>: "[C02,C14,C16] the re-based state satisfies the representation invariant over the rest of the chunk" (src/parser/lexer/verif_kani_steps.rs:552)
/// Test generated for harness `parser::lexer::verif_kani_steps_gen::step_lexer_after_doctype_system_identifier_state` 
///
/// Check for `assertion`: ""[C02,C14,C16] the re-based state satisfies the representation invariant over the rest of the chunk""

#[test]
fn kani_concrete_playback_step_lexer_after_doctype_system_identifier_state_2578101155116289889() {
    let concrete_vals: Vec<Vec<u8>> = vec![
        // 62
        vec![62],
        // 32
        vec![32],
        // 62
        vec![62],
        // 62
        vec![62],
        // 2ul
        vec![2, 0, 0, 0, 0, 0, 0, 0],
        // 2ul
        vec![2, 0, 0, 0, 0, 0, 0, 0],
        // 1ul
        vec![1, 0, 0, 0, 0, 0, 0, 0],
        // 0ul
        vec![0, 0, 0, 0, 0, 0, 0, 0],
        // 0
        vec![0],
        // 1
        vec![1],
        // 0
        vec![0],
        // 0
        vec![0],
        // 1
        vec![1],
        // 49
        vec![49],
        // 1
        vec![1],
        // 1ul
        vec![1, 0, 0, 0, 0, 0, 0, 0],
        // 2ul
        vec![2, 0, 0, 0, 0, 0, 0, 0],
        // 1
        vec![1],
        // 1ul
        vec![1, 0, 0, 0, 0, 0, 0, 0],
        // 2ul
        vec![2, 0, 0, 0, 0, 0, 0, 0],
        // 1
        vec![1],
        // 1ul
        vec![1, 0, 0, 0, 0, 0, 0, 0],
        // 2ul
        vec![2, 0, 0, 0, 0, 0, 0, 0],
        // 1
        vec![1],
        // 0ul
        vec![0, 0, 0, 0, 0, 0, 0, 0],
        // 1
        vec![1],
    ];
    kani::concrete_playback_run(concrete_vals, step_lexer_after_doctype_system_identifier_state);
}
