// VERIF-REPLAY property=C05 harness=selectors_vm::stack::verif_kani::c16_stack_directive_for_every_hash_and_namespace rel=src/selectors_vm/stack/verif_kani.rs tier=quick
// failed: selectors_vm::stack::verif_kani::c16_stack_directive_for_every_hash_and_namespace: assertion failed: ns == Namespace::Html && void (src/selectors_vm/stack/verif_kani.rs:61)
/// Test generated for harness `selectors_vm::stack::verif_kani::c16_stack_directive_for_every_hash_and_namespace` 
///
/// Check for `assertion`: "assertion failed: ns == Namespace::Html && void"

#[test]
fn kani_concrete_playback_c16_stack_directive_for_every_hash_and_namespace_5836555601663330599() {
    let concrete_vals: Vec<Vec<u8>> = vec![
        // 600870ul
        vec![38, 43, 9, 0, 0, 0, 0, 0],
        // 1
        vec![1],
        // 254
        vec![254],
    ];
    kani::concrete_playback_run(concrete_vals, c16_stack_directive_for_every_hash_and_namespace);
}
