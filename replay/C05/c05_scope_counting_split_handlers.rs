// VERIF-REPLAY property=C05 harness=rewriter::handlers_dispatcher::verif_kani::c05_scope_counting_split_handlers rel=src/rewriter/handlers_dispatcher/verif_kani.rs tier=quick
// failed: rewriter::handlers_dispatcher::verif_kani::scope_counting_case: assertion failed: count_of(&d.text_handlers, loc.text_handler_idx) == 0 (src/rewriter/handlers_dispatcher/verif_kani.rs:324)
/// Test generated for harness `rewriter::handlers_dispatcher::verif_kani::c05_scope_counting_split_handlers` 
///
/// Check for `assertion`: "assertion failed: count_of(&d.text_handlers, loc.text_handler_idx) == 0"

#[test]
fn kani_concrete_playback_c05_scope_counting_split_handlers_7676158024655439045() {
    let concrete_vals: Vec<Vec<u8>> = vec![
        // 1
        vec![1],
        // 1
        vec![1],
    ];
    kani::concrete_playback_run(concrete_vals, c05_scope_counting_split_handlers);
}
