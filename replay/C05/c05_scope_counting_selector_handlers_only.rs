// VERIF-REPLAY property=C05 harness=rewriter::handlers_dispatcher::verif_kani::c05_scope_counting_selector_handlers_only rel=src/rewriter/handlers_dispatcher/verif_kani.rs tier=quick
// failed: rewriter::handlers_dispatcher::verif_kani::scope_counting_case: assertion failed: f2.contains(TokenCaptureFlags::TEXT) == doc[2] (src/rewriter/handlers_dispatcher/verif_kani.rs:322)
/// Test generated for harness `rewriter::handlers_dispatcher::verif_kani::c05_scope_counting_selector_handlers_only` 
///
/// Check for `assertion`: "assertion failed: f2.contains(TokenCaptureFlags::TEXT) == doc[2]"

#[test]
fn kani_concrete_playback_c05_scope_counting_selector_handlers_only_9563777435913280681() {
    let concrete_vals: Vec<Vec<u8>> = vec![
        // 0
        vec![0],
        // 1
        vec![1],
    ];
    kani::concrete_playback_run(concrete_vals, c05_scope_counting_selector_handlers_only);
}
