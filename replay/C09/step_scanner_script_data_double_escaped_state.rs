// VERIF-REPLAY property=C09 harness=parser::tag_scanner::verif_kani_steps_gen::step_scanner_script_data_double_escaped_state rel=src/parser/tag_scanner/verif_kani_steps_gen.rs tier=quick
// failed: parser::tag_scanner::verif_kani_steps::post_step::<parser::tag_scanner::verif_kani_steps_gen::T, 4>: "[C09] outside '<'..tag-name no tag start is held back" (src/parser/tag_scanner/verif_kani_steps.rs:220)
/// Test generated for harness `parser::tag_scanner::verif_kani_steps_gen::step_scanner_script_data_double_escaped_state` 
///
/// Check for `assertion`: ""[C09] outside '<'..tag-name no tag start is held back""

#[test]
fn kani_concrete_playback_step_scanner_script_data_double_escaped_state_16696904479461323353() {
    let concrete_vals: Vec<Vec<u8>> = vec![
        // 60
        vec![60],
        // 60
        vec![60],
        // 60
        vec![60],
        // 60
        vec![60],
        // 3ul
        vec![3, 0, 0, 0, 0, 0, 0, 0],
        // 2ul
        vec![2, 0, 0, 0, 0, 0, 0, 0],
        // 0
        vec![0],
        // 0
        vec![0],
        // 0
        vec![0],
        // 0ul
        vec![0, 0, 0, 0, 0, 0, 0, 0],
        // 0
        vec![0],
        // 0
        vec![0],
        // 0
        vec![0],
        // 0
        vec![0],
        // 0
        vec![0],
        // 0
        vec![0],
        // 187
        vec![187],
        // 0
        vec![0],
    ];
    kani::concrete_playback_run(concrete_vals, step_scanner_script_data_double_escaped_state);
}
