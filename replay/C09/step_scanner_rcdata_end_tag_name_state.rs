// VERIF-REPLAY property=C09 harness=parser::tag_scanner::verif_kani_steps_gen::step_scanner_rcdata_end_tag_name_state rel=src/parser/tag_scanner/verif_kani_steps_gen.rs tier=quick
// failed: parser::tag_scanner::verif_kani_steps::post_step::<parser::tag_scanner::verif_kani_steps_gen::T, 4>: "[C09] outside '<'..tag-name no tag start is held back" (src/parser/tag_scanner/verif_kani_steps.rs:220)
/// Test generated for harness `parser::tag_scanner::verif_kani_steps_gen::step_scanner_rcdata_end_tag_name_state` 
///
/// Check for `assertion`: ""[C09] outside '<'..tag-name no tag start is held back""

#[test]
fn kani_concrete_playback_step_scanner_rcdata_end_tag_name_state_13540798833582846954() {
    let concrete_vals: Vec<Vec<u8>> = vec![
        // 60
        vec![60],
        // 60
        vec![60],
        // 255
        vec![255],
        // 62
        vec![62],
        // 4ul
        vec![4, 0, 0, 0, 0, 0, 0, 0],
        // 3ul
        vec![3, 0, 0, 0, 0, 0, 0, 0],
        // 1
        vec![1],
        // 1
        vec![1],
        // 0ul
        vec![0, 0, 0, 0, 0, 0, 0, 0],
        // 0
        vec![0],
        // 2ul
        vec![2, 0, 0, 0, 0, 0, 0, 0],
        // 1
        vec![1],
        // 255
        vec![255],
        // 109
        vec![109],
        // 105
        vec![105],
        // 255
        vec![255],
        // 117
        vec![117],
        // 105
        vec![105],
        // 1
        vec![1],
        // 1
        vec![1],
        // 0
        vec![0],
        // 191
        vec![191],
        // 1
        vec![1],
        // 159
        vec![159],
    ];
    kani::concrete_playback_run(concrete_vals, step_scanner_rcdata_end_tag_name_state);
}
