// VERIF-REPLAY property=C03 harness=html::local_name::verif_kani::c03_tag_name_hash_never_drops_characters rel=src/html/local_name/verif_kani.rs tier=quick
// failed: html::local_name::verif_kani::c03_tag_name_hash_never_drops_characters: "[C03,C04,C16] appending a character keeps all earlier characters" (src/html/local_name/verif_kani.rs:94)
/// Test generated for harness `html::local_name::verif_kani::c03_tag_name_hash_never_drops_characters` 
///
/// Check for `assertion`: ""[C03,C04,C16] appending a character keeps all earlier characters""

#[test]
fn kani_concrete_playback_c03_tag_name_hash_never_drops_characters_637771368523951091() {
    let concrete_vals: Vec<Vec<u8>> = vec![
        // 1152921504606846975ul
        vec![255, 255, 255, 255, 255, 255, 255, 15],
        // 111
        vec![111],
    ];
    kani::concrete_playback_run(concrete_vals, c03_tag_name_hash_never_drops_characters);
}
