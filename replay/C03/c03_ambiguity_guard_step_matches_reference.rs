// VERIF-REPLAY property=C03 harness=parser::tree_builder_simulator::ambiguity_guard::verif_kani::c03_ambiguity_guard_step_matches_reference rel=src/parser/tree_builder_simulator/ambiguity_guard/verif_kani.rs tier=quick
// failed: parser::tree_builder_simulator::ambiguity_guard::verif_kani::c03_ambiguity_guard_step_matches_reference: assertion failed: res.is_err() (src/parser/tree_builder_simulator/ambiguity_guard/verif_kani.rs:160)
/// Test generated for harness `parser::tree_builder_simulator::ambiguity_guard::verif_kani::c03_ambiguity_guard_step_matches_reference` 
///
/// Check for `assertion`: "assertion failed: res.is_err()"

#[test]
fn kani_concrete_playback_c03_ambiguity_guard_step_matches_reference_7363048335676671404() {
    let concrete_vals: Vec<Vec<u8>> = vec![
        // 171
        vec![171],
        // 125
        vec![125],
        // 0
        vec![0],
    ];
    kani::concrete_playback_run(concrete_vals, c03_ambiguity_guard_step_matches_reference);
}
