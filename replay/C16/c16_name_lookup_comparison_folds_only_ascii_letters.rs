// VERIF-REPLAY property=C16 harness=base::verif_kani::c16_name_lookup_comparison_folds_only_ascii_letters rel=src/base/verif_kani.rs tier=quick
// failed: base::verif_kani::c16_name_lookup_comparison_folds_only_ascii_letters: assertion failed: got == want (src/base/verif_kani.rs:36)
/// Test generated for harness `base::verif_kani::c16_name_lookup_comparison_folds_only_ascii_letters` 
///
/// Check for `assertion`: "assertion failed: got == want"

#[test]
fn kani_concrete_playback_c16_name_lookup_comparison_folds_only_ascii_letters_6422330777888876907() {
    let concrete_vals: Vec<Vec<u8>> = vec![
        // 64
        vec![64],
        // 97
        vec![97],
        // 191
        vec![191],
        // 96
        vec![96],
        // 97
        vec![97],
        // 96
        vec![96],
        // 2ul
        vec![2, 0, 0, 0, 0, 0, 0, 0],
        // 2ul
        vec![2, 0, 0, 0, 0, 0, 0, 0],
    ];
    kani::concrete_playback_run(concrete_vals, c16_name_lookup_comparison_folds_only_ascii_letters);
}
