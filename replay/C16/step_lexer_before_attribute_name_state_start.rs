// VERIF-REPLAY property=C16 harness=parser::lexer::verif_kani_steps_gen::step_lexer_before_attribute_name_state_start rel=src/parser/lexer/verif_kani_steps_gen.rs tier=quick
// failed: parser::lexer::verif_kani_steps::post_step::<parser::lexer::verif_kani_steps_gen::T, 4>: "[C01,C14,C15,C16] the successor state's representation invariant holds" (src/parser/lexer/verif_kani_steps.rs:523)
/// Test generated for harness `parser::lexer::verif_kani_steps_gen::step_lexer_before_attribute_name_state_start` 
///
/// Check for `assertion`: ""[C01,C14,C15,C16] the successor state's representation invariant holds""

#[test]
fn kani_concrete_playback_step_lexer_before_attribute_name_state_start_11907745468454351370() {
    let concrete_vals: Vec<Vec<u8>> = vec![
        // 38
        vec![38],
        // 62
        vec![62],
        // 32
        vec![32],
        // 6
        vec![6],
        // 4ul
        vec![4, 0, 0, 0, 0, 0, 0, 0],
        // 3ul
        vec![3, 0, 0, 0, 0, 0, 0, 0],
        // 1ul
        vec![1, 0, 0, 0, 0, 0, 0, 0],
        // 43ul
        vec![43, 0, 0, 0, 0, 0, 0, 0],
        // 1
        vec![1],
        // 0
        vec![0],
        // 0
        vec![0],
        // 187
        vec![187],
        // 0
        vec![0],
        // 2ul
        vec![2, 0, 0, 0, 0, 0, 0, 0],
        // 3ul
        vec![3, 0, 0, 0, 0, 0, 0, 0],
        // 0
        vec![0],
        // 0
        vec![0],
        // 0ul
        vec![0, 0, 0, 0, 0, 0, 0, 0],
        // 1
        vec![1],
    ];
    kani::concrete_playback_run(concrete_vals, step_lexer_before_attribute_name_state_start);
}
